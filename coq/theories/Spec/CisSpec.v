(** Declarative specification of anchored connected-induced-subgraph enumeration (C17).
    Definitions only. Node sets are represented by lists; [same_set] is equality as sets. *)
From Coq Require Import ZArith List Bool.
From FGV Require Import Base.Util Base.Bond Base.NX Model.Cis.
Import ListNotations.
Open Scope Z_scope.

(* v is in the adjacency of u *)
Definition adjacent (G : graph) (u v : Z) : Prop := In v (neighbors G u).

(* a walk from u to w all of whose nodes lie in S *)
Inductive walk (G : graph) (S : list Z) (u : Z) : Z -> Prop :=
| walk_refl : In u S -> walk G S u u
| walk_step v w : walk G S u v -> In w S -> adjacent G v w -> walk G S u w.

(* the subgraph induced by S is connected: S is non-empty and any two of its nodes are
   joined by a walk inside S *)
Definition connected (G : graph) (S : list Z) : Prop :=
  S <> [] /\ forall u v, In u S -> In v S -> walk G S u v.

Definition same_set (X Y : list Z) : Prop := forall x, In x X <-> In x Y.

(* every yielded list is a duplicate-free list of nodes containing the anchor and inducing a
   connected subgraph *)
Definition cis_sound (G : graph) (anchor : Z) (out : list (list Z)) : Prop :=
  forall Y, In Y out -> NoDup Y /\ In anchor Y /\ incl Y (nodes G) /\ connected G Y.

(* no node set is yielded twice: two positions of the output holding the same set are the
   same position *)
Definition cis_unique (out : list (list Z)) : Prop :=
  forall i j X Y, nth_error out i = Some X -> nth_error out j = Some Y -> same_set X Y -> i = j.

(* every connected node set containing the anchor is yielded *)
Definition cis_complete (G : graph) (anchor : Z) (out : list (list Z)) : Prop :=
  forall S, In anchor S -> connected G S -> exists Y, In Y out /\ same_set Y S.

Definition cis_spec (G : graph) (anchor : Z) (out : list (list Z)) : Prop :=
  cis_sound G anchor out /\ cis_unique out /\ cis_complete G anchor out.

(** The full C17 statement, for every well-formed graph (any size, any ids, any node and
    adjacency order) and every anchor that is a node: the enumeration returns normally and its
    list of yields is sound, duplicate-free as sets, and complete. *)
Definition C17_full_statement : Prop :=
  forall (G : graph) (anchor : Z), wfb G = true -> In anchor (nodes G) ->
  exists out, node_induced_connected_subgraphs G anchor = Ok out /\ cis_spec G anchor out.
