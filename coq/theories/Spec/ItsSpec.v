(** Declarative specification of ITS construction (C09) and ITS splitting / round trips (C10).
    Everything is phrased through [node_attr] and [edge_label] only, i.e. as statements about
    the labelled graph, never about node order or adjacency order. Definitions only. *)
From Coq Require Import ZArith List Bool String.
From FGV Require Import Base.Util Base.Bond Base.NX Base.NXFacts Model.Aam Model.Its.
Import ListNotations.
Open Scope Z_scope.

(** * vocabulary *)

(* node n of g carries the (usable) atom-map number k: "aam" present and >= 0 *)
Definition mapped (g : graph) (n k : Z) : Prop :=
  exists a, node_attr g n = Some a /\ a_aam a = Some k /\ 0 <= k.

(* no two nodes of g share a map number >= 0 *)
Definition aam_injective (g : graph) : Prop :=
  forall n m k, mapped g n k -> mapped g m k -> n = m.

(* every bond of a molecule graph is a scalar order *)
Definition scalar_labelled (g : graph) : Prop :=
  forall u v l, edge_label g u v = Some l -> exists o, l = Scalar o.

(* order of an optional bond, 0 for "not bonded" *)
Definition oorder (o : option label) : Z := match o with Some l => order_of l | None => 0 end.

(* the ITS label of an atom pair: absent iff neither side bonds the pair *)
Definition combine_orders (a b : option label) : option label :=
  match a, b with
  | None, None => None
  | _, _ => Some (Pair (oorder a) (oorder b))
  end.

(** * C09: characterisation of get_its G H *)

(* k is an ITS node iff some G-node n and some H-node m carry map number k >= 0; its
   attributes are G's symbol, aam = k and idx_map = (n, m) *)
Definition its_nodes_spec (G H out : graph) : Prop :=
  forall k a, node_attr out k = Some a <->
    exists n m, mapped G n k /\ mapped H m k /\ a = its_node_attr (sym_of G n) k (n, m).

(* {k, l} is an ITS edge with label lb iff both numbers are > 0 (the code's n_ITS > 0 test:
   map number 0 gives a node but never an edge), both are carried on both sides, and lb is
   (order in G, order in H) of the bond between the mapped atoms, at least one side bonding
   them. Self loops (k = l) are covered by the same statement. *)
Definition its_edges_spec (G H out : graph) : Prop :=
  forall k l lb, edge_label out k l = Some lb <->
    exists n1 n2 m1 m2,
      mapped G n1 k /\ mapped G n2 l /\ mapped H m1 k /\ mapped H m2 l /\ 0 < k /\ 0 < l /\
      combine_orders (edge_label G n1 n2) (edge_label H m1 m2) = Some lb.

Definition its_spec (G H out : graph) : Prop := its_nodes_spec G H out /\ its_edges_spec G H out.

(** * invariance under renaming / reordering *)

(* g' is g with node ids renamed by f (injective on the nodes of g), in any node order and
   any adjacency order: same node -> attributes map and same edge -> label map up to f *)
Definition renaming (f : Z -> Z) (g g' : graph) : Prop :=
  (forall n m, has_node g n = true -> has_node g m = true -> f n = f m -> n = m)
  /\ (forall n, has_node g n = true -> node_attr g' (f n) = node_attr g n)
  /\ (forall n', has_node g' n' = true -> exists n, has_node g n = true /\ n' = f n)
  /\ (forall u v, has_node g u = true -> has_node g v = true ->
        edge_label g' (f u) (f v) = edge_label g u v).

(* equality of labelled graphs, the idx_map attribute (which records the input ids) aside *)
Definition drop_idx (a : nattr) : nattr := mkNA (a_sym a) (a_aam a) (a_labels a) (a_islab a) None.
Definition equiv_mod_idx (x y : graph) : Prop :=
  (forall k, option_map drop_idx (node_attr x k) = option_map drop_idx (node_attr y k))
  /\ (forall k l, edge_label x k l = edge_label y k l).

(** * C10: split_its *)

Definition obind {A B} (f : A -> option B) (o : option A) : option B :=
  match o with Some a => f a | None => None end.

(* what one side keeps of an ITS label: tuple and list labels contribute their component
   (absent when 0), scalar labels stay *)
Definition tr_side (proj : label -> option Z) (l : label) : option label :=
  match proj l with
  | None => Some l
  | Some b => if b =? 0 then None else Some (Scalar b)
  end.

Definition split_side_spec (proj : label -> option Z) (its g : graph) : Prop :=
  (forall n, node_attr g n = node_attr its n)
  /\ (forall u v, edge_label g u v = obind (tr_side proj) (edge_label its u v)).

Definition split_spec (its : graph) (gh : graph * graph) : Prop :=
  split_side_spec lab_fst its (fst gh) /\ split_side_spec lab_snd its (snd gh).

(** * C10: round trips *)

(* nodes are named by their map number, all positive *)
Definition ids_are_aam (g : graph) : Prop :=
  forall n a, node_attr g n = Some a -> a_aam a = Some n /\ 0 < n.

(* the label get_its (split its) puts where its has l: list becomes tuple, Scalar b is read
   as (b, b), a (0, 0) label disappears *)
Definition norm_label (l : label) : option label :=
  match l with
  | Scalar c => Some (Pair c c)
  | Pair a b | LPair a b => if (a =? 0) && (b =? 0) then None else Some (Pair a b)
  end.

(* an ITS as get_its makes it: tuple labels, never (0, 0) *)
Definition its_labelled (g : graph) : Prop :=
  forall u v l, edge_label g u v = Some l -> exists a b, l = Pair a b /\ (a <> 0 \/ b <> 0).

(* re-superimposing the two halves gives the ITS back: same node set, symbol and map number
   (idx_map becomes (n, n), other attributes are not carried), labels normalised *)
Definition resuperimpose_statement : Prop :=
  forall its, wf its -> ids_are_aam its ->
    let its' := get_its (fst (split_its its)) (snd (split_its its)) in
    (forall n, node_attr its' n =
               option_map (fun a => its_node_attr (a_sym a) n (n, n)) (node_attr its n))
    /\ (forall u v, edge_label its' u v = obind norm_label (edge_label its u v)).

(* a fully mapped reaction: both sides have the same node set, named by map number *)
Definition fully_mapped (G H : graph) : Prop :=
  ids_are_aam G /\ ids_are_aam H /\ (forall n, has_node G n = has_node H n).

Definition no_zero_bond (g : graph) : Prop :=
  forall u v l, edge_label g u v = Some l -> exists o, l = Scalar o /\ o <> 0.

(* splitting the superposition of a fully mapped reaction gives the reaction back: bonds of
   G and H exactly; every node carries G's symbol, its map number, idx_map (n, n) *)
Definition split_after_its_statement : Prop :=
  forall G H, wf G -> wf H -> fully_mapped G H ->
    no_zero_bond G -> no_zero_bond H ->
    let gh := split_its (get_its G H) in
    (forall n, node_attr (fst gh) n =
               option_map (fun a => its_node_attr (a_sym a) n (n, n)) (node_attr G n))
    /\ (forall n, node_attr (snd gh) n = node_attr (fst gh) n)
    /\ (forall u v, edge_label (fst gh) u v = edge_label G u v)
    /\ (forall u v, edge_label (snd gh) u v = edge_label H u v).
