(** Decidable checker for the C20 specification, run on the implementation's outputs.
    Definitions only; soundness is proved in Proofs/AamProofs.v. *)
From Coq Require Import ZArith List Bool String.
From FGV Require Import Base.Util Base.Bond Base.NX Model.Aam Spec.AamSpec.
Import ListNotations.
Open Scope Z_scope.

Definition zrange (a b : Z) : list Z :=
  map (fun i => a + Z.of_nat i) (seq 0 (Z.to_nat (b - a))).

Definition least_freeb (start : Z) (used : list Z) (k : Z) : bool :=
  (start <=? k) && negb (zmem k used) && forallb (fun j => zmem j used) (zrange start k).

Definition same_but_aamb (a a' : nattr) : bool :=
  option_eqb String.eqb (a_sym a) (a_sym a')
  && option_eqb (list_eqb String.eqb) (a_labels a) (a_labels a')
  && option_eqb Bool.eqb (a_islab a) (a_islab a')
  && option_eqb (fun x y => (fst x =? fst y) && (snd x =? snd y)) (a_idxmap a) (a_idxmap a').

Definition entry_relb (e e' : Z * (nattr * adjl)) : bool :=
  (fst e =? fst e') && adjl_eqb (snd (snd e)) (snd (snd e'))
  && same_but_aamb (fst (snd e)) (fst (snd e'))
  && match a_aam (fst (snd e)) with
     | Some k => option_eqb Z.eqb (a_aam (fst (snd e'))) (Some k)
     | None => true
     end.

Fixpoint forall2b {A B} (f : A -> B -> bool) (x : list A) (y : list B) : bool :=
  match x, y with
  | [], [] => true
  | a :: x', b :: y' => f a b && forall2b f x' y'
  | _, _ => false
  end.

Definition all_mappedb (g : graph) : bool := forallb (fun e => is_some (a_aam (fst (snd e)))) g.

Fixpoint nth_checks (start : Z) (old nw acc : list Z) : bool :=
  match nw with
  | [] => true
  | k :: t => least_freeb start (old ++ acc) k && nth_checks start old t (acc ++ [k])
  end.

Definition complete_okb (g : graph) (off : offset) (out : option graph) : bool :=
  match out with
  | None => false     (* completion never raises on the modelled domain *)
  | Some g' =>
      forall2b entry_relb g g' && all_mappedb g'
      && nth_checks (start_of off (existing_maps g)) (existing_maps g) (new_numbers g g') []
  end.

Definition init_okb (g : graph) (off : Z) (out : option graph) : bool :=
  let unmapped := forallb (fun '(_, (a, _)) => negb (is_some (a_aam a))) g in
  match out with
  | None => negb unmapped
  | Some g' =>
      unmapped && graph_eqb g' (map (fun '(n, (a, ad)) => (n, (set_aam a (n + off), ad))) g)
  end.
