(** Declarative specification of the reaction centre, of bounded unreachability and of
    radius pruning (C11). Definitions only. *)
From Coq Require Import ZArith List Bool String Sorted.
From FGV Require Import Base.Util Base.Bond Base.NX Base.NXFacts Model.Matrix Model.Prune Spec.WalkDef.
Import ListNotations.
Open Scope Z_scope.

(* {u,v} is a bond of the ITS whose two label components differ *)
Definition rc_edge (its : graph) (u v : Z) (l : label) : Prop :=
  edge_label its u v = Some l /\ lab_differs l = Some true.

(* n is an end atom of such a bond *)
Definition rc_node (its : graph) (n : Z) : Prop := exists v l, rc_edge its n v l.

(* the reaction centre: exactly the changing bonds, exactly their end atoms, symbol only *)
Definition rc_spec (its rc : graph) : Prop :=
  wf rc
  /\ (forall u v l, edge_label rc u v = Some l <-> rc_edge its u v l)
  /\ (forall n a, node_attr rc n = Some a <->
        rc_node its n /\ exists s, sym_of its n = Some s /\ a = na_sym s).

(* L = the nodes of g that no start node reaches within r steps, in increasing id order *)
Definition unreachable_spec (g : graph) (S : list Z) (r : nat) (L : list Z) : Prop :=
  (forall v, In v L <-> has_node g v = true /\ forall s, In s S -> ~ greach g r s v)
  /\ StronglySorted Z.lt L.

(* v is within distance r of the reaction centre *)
Definition in_ctx (its : graph) (r : nat) (v : Z) : Prop :=
  exists s, rc_node its s /\ greach its r s v.

(* a bond cut by the pruning: u is dropped, v is kept *)
Definition cut_bond (its : graph) (r : nat) (u v : Z) : Prop :=
  has_node its u = true /\ ~ in_ctx its r u /\ in_ctx its r v /\ has_edge its u v = true.

(* the new nodes n_1..n_k and the cut bonds c_1..c_k can be listed completely and without
   repetition such that n_i is a hydrogen whose only bond is a (1,1) bond to the kept end
   of c_i; every new id exceeds every id of the input *)
Definition hyd_spec (its : graph) (r : nat) (out : graph) : Prop :=
  exists (newl : list Z) (cuts : list (Z * Z)),
    NoDup newl
    /\ (forall n, In n newl <-> has_node out n = true /\ has_node its n = false)
    /\ NoDup cuts
    /\ (forall u v, In (u, v) cuts <-> cut_bond its r u v)
    /\ Forall2 (fun n c =>
                  node_attr out n = Some (na_sym "H"%string)
                  /\ forall w, edge_label out n w = if w =? snd c then Some (Pair 2 2) else None)
               newl cuts
    /\ (forall n m, In n newl -> has_node its m = true -> m < n).

Definition prune_spec (its : graph) (r : nat) (ih : bool) (out : graph) : Prop :=
  wf out
  /\ (forall v, has_node its v = true -> (has_node out v = true <-> in_ctx its r v))
  /\ (forall v, in_ctx its r v -> node_attr out v = node_attr its v)
  /\ (forall u v, in_ctx its r u -> in_ctx its r v -> edge_label out u v = edge_label its u v)
  /\ (forall u v, has_node its u = true -> has_node its v = true -> has_edge out u v = true ->
        in_ctx its r u /\ in_ctx its r v)
  /\ (if ih then hyd_spec its r out
      else forall n, has_node out n = true -> has_node its n = true).
