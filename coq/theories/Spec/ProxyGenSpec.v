(** Declarative specification of proxy expansion (C14) and of generated reactions (C15).
    Definitions only.

    count: the number of complete expansions, by recursion on the group DAG (depth-fuelled):
      a graph has  prod over its group nodes of (count of the node's group)  expansions,
      a group has  sum over its graphs of their counts.
    Acyclicity is witnessed by a rank table: every group named on a node of a graph of group a has a
    smaller rank than a. *)
From Coq Require Import ZArith List Bool String Permutation.
From FGV Require Import Base.Util Base.Bond Base.NX Base.NXFacts Base.NXMulti Model.Aam Model.Proxy Model.Its
  Model.ProxyGen Spec.ProxySpec Spec.ProxyCheck.
Import ListNotations.
Open Scope Z_scope.

(** * the count formula *)

Definition pcount (gc : string -> nat) (gs : groups) (g : mgraph) : nat :=
  fold_right (fun e acc =>
                (match node_group gs (fst (snd e)) with Some nm => gc nm | None => 1%nat end * acc)%nat) 1%nat g.

Fixpoint gcount (d : nat) (gs : groups) (nm : string) : nat :=
  match d with
  | O => O
  | S d' =>
      match glookup nm gs with
      | None => O
      | Some grp => list_sum (map (fun sg => pcount (gcount d' gs) gs (pg_graph sg)) (gr_graphs grp))
      end
  end.

Definition cfg_depth (gs : groups) : nat := S (List.length gs).

(* number of expansions of one pattern graph / of a whole configuration *)
Definition count_graph (gs : groups) (g : mgraph) : nat := pcount (gcount (cfg_depth gs) gs) gs g.
Definition count_cfg (cfg : config) : nat :=
  list_sum (map (fun c => count_graph (cfg_groups cfg) (pg_graph c)) (cfg_core cfg)).

(** * well-formed, acyclic configurations *)

(* the node carries "is_labeled" (and "labels" when labelled), names at most one configured group,
   and that group is stored under its own name *)
Definition attr_ok (gs : groups) (a : nattr) : Prop :=
  group_attr_e gs a <> None
  /\ (is_group_attr gs a = true ->
      exists nm grp, filter (in_groups gs) (node_labels a) = [nm] /\ glookup nm gs = Some grp /\ gr_name grp = nm).

Definition nodes_ok (gs : groups) (g : mgraph) : Prop :=
  forall n a ad, In (n, (a, ad)) g -> attr_ok gs a.

(* a pattern graph as the parser returns it at offset 0 *)
Definition pattern_ok (gs : groups) (g : mgraph) : Prop :=
  mwf g /\ ids_range (mnodes g) 0 (mnumber_of_nodes g) /\ nodes_ok gs g.

Definition anchors_ok (anchors : list Z) (k : Z) : Prop :=
  0 < k -> anchors <> [] /\ Forall (fun a => 0 <= a < k) anchors.

Definition pgraph_ok (gs : groups) (pg : pgraph) : Prop :=
  pattern_ok gs (pg_graph pg) /\ anchors_ok (pg_anchor pg) (mnumber_of_nodes (pg_graph pg)).

Definition cfg_ok (cfg : config) : Prop :=
  let gs := cfg_groups cfg in
  Forall (fun c => pattern_ok gs (pg_graph c)) (cfg_core cfg)
  /\ Forall (fun kg => Forall (pgraph_ok gs) (gr_graphs (snd kg))) gs.

(* rank table *)
Fixpoint rlookup (nm : string) (rks : list (string * nat)) : option nat :=
  match rks with
  | [] => None
  | (k, r) :: t => if String.eqb nm k then Some r else rlookup nm t
  end.

Definition rank_of (rks : list (string * nat)) (nm : string) : nat :=
  match rlookup nm rks with Some r => r | None => O end.

(* every group named on a node of graph g has rank < r *)
Definition refs_below (gs : groups) (rks : list (string * nat)) (r : nat) (g : mgraph) : Prop :=
  forall n a ad nm, In (n, (a, ad)) g -> node_group gs a = Some nm -> (rank_of rks nm < r)%nat.

Definition ranked (gs : groups) (rks : list (string * nat)) : Prop :=
  forall nm grp, glookup nm gs = Some grp ->
    (rank_of rks nm < List.length gs)%nat
    /\ Forall (fun sg => refs_below gs rks (rank_of rks nm) (pg_graph sg)) (gr_graphs grp).

Definition acyclic (gs : groups) : Prop := exists rks, ranked gs rks.

(** * what the theorems say about the results *)

(* ids 0..n-1 *)
Definition contiguous (g : graph) : Prop := ids_range (nodes g) 0 (number_of_nodes g) /\ NoDup (nodes g).
(* no node labelled with a configured group *)
Definition no_group_node (gs : groups) (g : graph) : Prop :=
  forall n a, node_attr g n = Some a -> is_group_attr gs a = false.

(** * conservation along the derivation the implementation follows *)

(* multisets as lists up to permutation *)
Definition msymbols (g : mgraph) : list (option string) := map (fun e => a_sym (fst (snd e))) g.
Definition mbonds (g : mgraph) : list label := map snd (medges g).
Definition symbols (g : graph) : list (option string) := map (fun e => a_sym (fst (snd e))) g.
Definition bonds (g : graph) : list label := map (fun e => snd e) (edges g).

(* labels of the bonds of node n (parallel bonds each counted, a self-loop once) *)
Definition mincident_labels (g : mgraph) (n : Z) : list label := map (fun e => snd e) (mincident g n).

(* one substitution step: the first group node (in node order) of g, named [nm], is replaced by the
   graph [sg] of that group *)
Inductive step (gs : groups) (g : mgraph) (sg : pgraph) (g' : mgraph) : Prop :=
| step_intro anchor a nm grp :
    get_next_group_node gs g = GOk (Some anchor) ->
    mnode_attr g anchor = Some a ->
    node_group gs a = Some nm ->
    glookup nm gs = Some grp ->
    In sg (gr_graphs grp) ->
    replace_node_multi (mcopy g) anchor (mshift (mnumber_of_nodes (mcopy g)) (pg_graph sg)) (pg_anchor sg) = POk g' ->
    step gs g sg g'.

(* g derives r by the choice sequence [choices]; r has no group node left *)
Inductive derives (gs : groups) : mgraph -> list pgraph -> mgraph -> Prop :=
| derives_done g : get_next_group_node gs g = GOk None -> derives gs g [] g
| derives_step g sg g' choices r :
    step gs g sg g' -> derives gs g' choices r -> derives gs g (sg :: choices) r.

(* symbols of the nodes of a pattern that are not group nodes; all bonds of a pattern *)
Definition plain_symbols (gs : groups) (g : mgraph) : list (option string) :=
  map (fun e => a_sym (fst (snd e))) (filter (fun e => negb (is_group_attr gs (fst (snd e)))) g).

(* one step conserves: the replaced node's symbol goes, the pattern's symbols come; the pattern's
   bonds come and the node's bonds are re-attached (non-empty pattern) or removed (empty pattern) *)
Definition step_conserves (gs : groups) (g : mgraph) (sg : pgraph) (g' : mgraph) : Prop :=
  exists anchor a,
    get_next_group_node gs g = GOk (Some anchor) /\ mnode_attr g anchor = Some a
    /\ Permutation (a_sym a :: msymbols g') (msymbols g ++ msymbols (pg_graph sg))
    /\ (pg_graph sg <> [] -> Permutation (mbonds g') (mbonds g ++ mbonds (pg_graph sg)))
    /\ (pg_graph sg = [] -> Permutation (mbonds g' ++ mincident_labels g anchor) (mbonds g)).

(** * statements about other teams' models that the C14 theorems take as hypotheses *)

(* C13, multigraph form: Proofs/ProxyMultiProofs.v of the C13 development proves exactly this *)
Definition C13_multi_statement : Prop :=
  forall g node h anchors,
    replace_multi_pre g node h anchors ->
    exists g', replace_node_multi g node h anchors = POk g' /\ replace_multi_spec g node h anchors g'.

(* MultiGraph.copy() keeps well-formedness, the node list, the attributes and the bonds *)
Definition mcopy_statement : Prop :=
  forall g, mwf g ->
    mwf (mcopy g) /\ mnodes (mcopy g) = mnodes g /\ (forall x, mnode_attr (mcopy g) x = mnode_attr g x).
Definition mcopy_bonds_statement : Prop :=
  forall g, mwf g -> forall x y l, mcount (mcopy g) x y l = mcount g x y l.

(* what every graph a proxy yields satisfies *)
Definition result_ok (cfg : config) (r : graph) : Prop :=
  contiguous r /\ no_group_node (cfg_groups cfg) r
  /\ (cfg_aam cfg = true -> forall n a, node_attr r n = Some a -> a_aam a = Some (n + 1)).
