(** The reference constants of the documented pattern syntax are in Spec/LexerConst.v
    (hand-written, NOT generated). [token_spec_ok] / [bond_table_ok] state that the tables
    regenerated from fgutils/parse.py on every run are exactly these, so a changed regex or
    bond order in the source breaks a proof instead of silently moving the specification.
    (The specification Spec/ParseSpec.v depends only on LexerConst.v, so the model and the
    specification still evaluate when one of these lemmas breaks.) *)
From Coq Require Import ZArith Ascii String List Bool.
From FGV Require Import Base.Regex Gen.Lexer.
From FGV Require Export Spec.LexerConst.
Import ListNotations.
Open Scope string_scope.

Lemma token_spec_ok : token_spec = ref_token_spec.
Proof. vm_compute. reflexivity. Qed.

Lemma bond_table_ok : bond_order_table = ref_bond_orders.
Proof. vm_compute. reflexivity. Qed.

(* the greedy matcher of Base/Regex.v is exact (no backtracking can change a result) on
   every regex of the table *)
Lemma token_spec_bt_free : forallb (fun e => bt_free (snd e)) token_spec = true.
Proof. vm_compute. reflexivity. Qed.
