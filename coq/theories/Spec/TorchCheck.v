(** Decidable checkers for C18, run on the IMPLEMENTATION's outputs by the harness.
    Definitions only; soundness w.r.t. Spec/TorchSpec.v is proved in Proofs/TorchCheckSound.v.
    Every checker is written from the property text, not from the code: symbols come from the
    reference periodic table, positions are first indices, reachability is a breadth-first ball. *)
From Coq Require Import ZArith List Bool String.
From FGV Require Import Base.Util Base.Bond Base.NX Model.Torch Spec.PeriodicRef Spec.TorchSpec.
Import ListNotations.
Open Scope Z_scope.

Fixpoint all2b {A B} (f : A -> B -> bool) (x : list A) (y : list B) : bool :=
  match x, y with
  | [], [] => true
  | a :: x', b :: y' => f a b && all2b f x' y'
  | _, _ => false
  end.

(** * the domain of the property, decided with the reference table *)

Definition tabulatedb (g : graph) : bool :=
  forallb (fun e : Z * (nattr * adjl) =>
             match a_sym (fst (snd e)) with Some s => is_some (ref_atomic_number s) | None => false end) g.

Definition pair_labelledb (g : graph) : bool :=
  forallb (fun e : Z * (nattr * adjl) => forallb (fun vl : Z * label => pairlike (snd vl)) (snd (snd e))) g.

Definition has_edgeb (g : graph) : bool :=
  existsb (fun e : Z * (nattr * adjl) => match snd (snd e) with [] => false | _ :: _ => true end) g.

Definition to_torch_domainb (g : graph) : bool := wfb g && tabulatedb g && pair_labelledb g.
Definition its_domainb (g : graph) : bool := to_torch_domainb g && has_edgeb g.

(** * round trip *)

Definition roundtrip_graph_okb (g g' : graph) : bool :=
  let n := List.length g in
  list_eqb Z.eqb (nodes g') (znats n)
  && forallb (fun i => match sym_of g (nth i (nodes g) 0) with
                       | Some s => option_eqb nattr_eqb (node_attr g' (Z.of_nat i)) (Some (na_sym s))
                       | None => false
                       end) (seq 0 n)
  && forallb (fun i => forallb (fun j =>
        option_eqb label_eqb (edge_label g' (Z.of_nat i) (Z.of_nat j))
                             (option_map as_pair (edge_label g (nth i (nodes g) 0) (nth j (nodes g) 0))))
        (seq 0 n)) (seq 0 n)
  && wfb g'.

Definition is_err {A} (r : res A) : bool := match r with Err _ => true | Ok _ => false end.

(* inside the domain the decoded graph must be the renumbered copy; outside the conversion refuses *)
Definition roundtrip_okb (g : graph) (out : res its_out) : bool :=
  if its_domainb g
  then match out with Ok (One g') => roundtrip_graph_okb g g' | _ => false end
  else is_err out.

(** * tensor form *)

Definition in_rangeb (n : nat) (p : Z * Z) : bool :=
  (0 <=? fst p) && (fst p <? Z.of_nat n) && (0 <=? snd p) && (snd p <? Z.of_nat n).

Definition ref_row (e : Z * (nattr * adjl)) : list Z :=
  match a_sym (fst (snd e)) with
  | Some s => match ref_atomic_number s with Some z => [z] | None => [] end
  | None => []
  end.

Definition to_torch_tensor_okb (g : graph) (t : tdata) : bool :=
  let n := List.length g in
  list_eqb zrow_eqb (t_x t) (map ref_row g)
  && forallb (in_rangeb n) (t_ei t)
  && match t_ea t with
     | Some ea =>
         Nat.eqb (List.length ea) (List.length (t_ei t))
         && Nat.eqb (List.length (t_ei t)) (2 * List.length (edges g))
         && forallb (fun i => forallb (fun j =>
              option_eqb zrow_eqb (arc_label t (Z.of_nat i) (Z.of_nat j))
                         (option_map feat (edge_label g (nth i (nodes g) 0) (nth j (nodes g) 0))))
              (seq 0 n)) (seq 0 n)
     | None => false
     end
  && negb (is_some (t_batch t)).

Definition to_torch_okb (g : graph) (out : res tdata) : bool :=
  if to_torch_domainb g
  then match out with Ok t => to_torch_tensor_okb g t | Err _ => false end
  else is_err out.

(** * batches *)

Definition batch_tensor_of (ts : list tdata) : tdata :=
  mkT (List.concat (map t_x ts))
      (List.concat (map (fun p : Z * tdata => map (shift (fst p)) (t_ei (snd p))) (combine (offsets 0 ts) ts)))
      (Some (List.concat (map ea_rows ts)))
      (Some (List.concat (map (fun p : Z * tdata => repeat (fst p) (List.length (t_x (snd p))))
                              (combine (znats (List.length ts)) ts)))).

Definition is_nil {A} (l : list A) : bool := match l with [] => true | _ => false end.

(* ms are the implementation's own member-wise conversions *)
Definition batch_okb (gs : list graph) (ms : list tdata) (bt : res tdata) (out : res its_out) : bool :=
  if forallb its_domainb gs && forallb (fun g : graph => (2 <=? List.length g)%nat) gs && negb (is_nil gs)
  then match bt, out with
       | Ok b, Ok (Many gs') =>
           all2b to_torch_tensor_okb gs ms
           && tdata_eqb b (batch_tensor_of ms)
           && all2b roundtrip_graph_okb gs gs'
       | _, _ => false
       end
  else is_err bt || is_err out.

(** * decoding raw tensors: the graph meaning of a tensor graph *)

(* label of the LAST column joining i and j in either direction *)
Definition und_label (t : tdata) (i j : Z) : option label :=
  match t_ea t with
  | None => None
  | Some ea =>
      fold_left (fun acc (c : (Z * Z) * list Z) =>
                   if ((fst (fst c) =? i) && (snd (fst c) =? j)) || ((fst (fst c) =? j) && (snd (fst c) =? i))
                   then match snd c with [g; h] => Some (Pair g h) | _ => acc end else acc)
                (combine (t_ei t) ea) None
  end.

Definition raw_domainb (t : tdata) : bool :=
  negb (is_some (t_batch t))
  && negb (is_nil (t_ei t))
  && forallb (in_rangeb (List.length (t_x t))) (t_ei t)
  && forallb (fun row => match row with z :: _ => is_some (ref_symbol z) | [] => false end) (t_x t)
  && match t_ea t with
     | Some ea => Nat.eqb (List.length ea) (List.length (t_ei t))
                  && forallb (fun row => Nat.eqb (List.length row) 2) ea
     | None => false
     end.

Definition raw_graph_okb (t : tdata) (g' : graph) : bool :=
  let n := List.length (t_x t) in
  list_eqb Z.eqb (nodes g') (znats n)
  && forallb (fun i => match nth i (t_x t) [] with
                       | z :: _ => match ref_symbol z with
                                   | Some s => option_eqb nattr_eqb (node_attr g' (Z.of_nat i)) (Some (na_sym s))
                                   | None => false
                                   end
                       | [] => false
                       end) (seq 0 n)
  && forallb (fun i => forallb (fun j =>
        option_eqb label_eqb (edge_label g' (Z.of_nat i) (Z.of_nat j)) (und_label t (Z.of_nat i) (Z.of_nat j)))
        (seq 0 n)) (seq 0 n)
  && wfb g'.

Definition from_torch_okb (rt : res tdata) (out : res its_out) : bool :=
  match rt with
  | Err _ => is_err out
  | Ok t =>
      match t_batch t with
      | None => if raw_domainb t
                then match out with Ok (One g') => raw_graph_okb t g' | _ => false end
                else true
      | Some b =>
          match out with
          | Ok (Many gs') =>
              Nat.eqb (List.length gs') (List.length (unique_sorted b))
              && Nat.eqb (List.length (List.concat gs')) (List.length (t_x t))
              && forallb (fun g' : graph => list_eqb Z.eqb (nodes g') (znats (List.length g')) && wfb g') gs'
          | Ok (One _) => false
          | Err _ => true
          end
      end
  end.

(** * induced subgraphs *)

Definition ea_lenb (t : tdata) : bool :=
  match t_ea t with Some ea => Nat.eqb (List.length ea) (List.length (t_ei t)) | None => true end.

Definition zin_rangeb (n : nat) (v : Z) : bool := (0 <=? v) && (v <? Z.of_nat n).

Definition node_induced_domainb (t : tdata) (ns : list Z) : bool :=
  nodupb ns && negb (is_nil ns) && forallb (zin_rangeb (List.length (t_x t))) ns
  && ea_lenb t
  && (negb (is_some (t_ea t)) || negb (is_nil (filter (both_in ns) (t_ei t)))).

Definition node_induced_okb (t : tdata) (ns : list Z) (out : res tdata) : bool :=
  if node_induced_domainb t ns
  then match out with Ok t' => tdata_eqb t' (induced_tensor t ns) | Err _ => false end
  else true.

Definition edge_induced_domainb (t : tdata) (es : list Z) : bool :=
  negb (is_nil es) && forallb (zin_rangeb (List.length (t_ei t))) es
  && forallb (in_rangeb (List.length (t_x t))) (t_ei t) && ea_lenb t.

(* the end points of the chosen columns, ascending *)
Definition chosen_nodes (t : tdata) (es : list Z) : list Z :=
  filter (fun v => existsb (fun e => let p := nth (Z.to_nat e) (t_ei t) (0, 0) in (fst p =? v) || (snd p =? v)) es)
         (znats (List.length (t_x t))).

Definition edge_induced_tensor (t : tdata) (es : list Z) : tdata :=
  let sel := chosen_nodes t es in
  mkT (map (fun v => nth (Z.to_nat v) (t_x t) []) sel)
      (map (fun e => renumber sel (nth (Z.to_nat e) (t_ei t) (0, 0))) es)
      (option_map (fun ea => map (fun e => nth (Z.to_nat e) ea []) es) (t_ea t))
      None.

Definition edge_induced_okb (t : tdata) (es : list Z) (out : res tdata) : bool :=
  if edge_induced_domainb t es
  then match out with Ok t' => tdata_eqb t' (edge_induced_tensor t es) | Err _ => false end
  else true.

(** * pruning *)

(* breadth-first ball: everything within k steps of the set s *)
Fixpoint ball (ei : list (Z * Z)) (k : nat) (s : list Z) : list Z :=
  match k with
  | O => s
  | S k' => let b := ball ei k' s in b ++ map snd (filter (fun p : Z * Z => zmem (fst p) b) ei)
  end.

Definition prune_domainb (t : tdata) (start : list Z) : bool :=
  forallb (in_rangeb (List.length (t_x t))) (t_ei t)
  && forallb (zin_rangeb (List.length (t_x t))) start && ea_lenb t.

Definition kept_nodes (t : tdata) (start : list Z) (radius : Z) : list Z :=
  filter (fun v => zmem v (ball (t_ei t) (Z.to_nat radius) start)) (znats (List.length (t_x t))).

Definition prune_okb (t : tdata) (start : list Z) (radius : Z) (out : res tdata) : bool :=
  if prune_domainb t start
  then match out with Ok t' => tdata_eqb t' (induced_tensor t (kept_nodes t start radius)) | Err _ => false end
  else true.

(** * adjacency matrix *)

Definition adjacency_okb (t : tdata) (out : res matrix) : bool :=
  let n := List.length (t_x t) in
  if forallb (in_rangeb n) (t_ei t)
  then match out with
       | Ok m => Nat.eqb (List.length m) n
                 && forallb (fun row : list Z => Nat.eqb (List.length row) n) m
                 && forallb (fun i => forallb (fun j =>
                      mget m i j =? (if has_arc t (Z.of_nat i) (Z.of_nat j) then 1 else 0)) (seq 0 n)) (seq 0 n)
       | Err _ => false
       end
  else true.
