(** Declarative specification for C18 (tensor conversion, tensor graph operators).
    Definitions only. The vocabulary is independent of the dictionaries / matrices the code uses:
    positions are first indices in a list, reachability is "there is a walk of bounded length". *)
From Coq Require Import ZArith List Bool String.
From FGV Require Import Base.Util Base.Bond Base.NX Model.Torch Spec.PeriodicRef.
Import ListNotations.
Open Scope Z_scope.

(** * vocabulary *)

(* first position of u in l (0-based); -1 when absent *)
Fixpoint zindex_from (i : Z) (u : Z) (l : list Z) : Z :=
  match l with
  | [] => -1
  | w :: t => if u =? w then i else zindex_from (i + 1) u t
  end.
Definition zindex (u : Z) (l : list Z) : Z := zindex_from 0 u l.

(* a tuple label is what comes back; a list label [g, h] comes back as the tuple (g, h) *)
Definition as_pair (l : label) : label :=
  match l with LPair g h => Pair g h | _ => l end.

Definition pairlike (l : label) : bool :=
  match l with Pair _ _ | LPair _ _ => true | Scalar _ => false end.

(* [g, h] *)
Definition feat (l : label) : list Z :=
  match l with Pair g h | LPair g h => [g; h] | Scalar _ => [] end.

(** * the domain of the property: an ITS graph with element-symbol nodes and pair labels *)

Definition tabulated (g : graph) : Prop :=
  forall n a ad, In (n, (a, ad)) g -> exists s z, a_sym a = Some s /\ ref_atomic_number s = Some z.

Definition pair_labelled (g : graph) : Prop :=
  forall u v l, edge_label g u v = Some l -> pairlike l = true.

(** * round trip *)

(* g' is g renumbered by position: node i of g' is the i-th node of g, with its symbol (and
   nothing else), bonded exactly like it, with tuple labels; no other nodes, no other edges *)
Definition roundtrip_spec (g g' : graph) : Prop :=
  let n := List.length g in
  nodes g' = znats n /\
  (forall i, (i < n)%nat ->
     exists s, sym_of g (nth i (nodes g) 0) = Some s /\ node_attr g' (Z.of_nat i) = Some (na_sym s)) /\
  (forall i j, (i < n)%nat -> (j < n)%nat ->
     edge_label g' (Z.of_nat i) (Z.of_nat j)
     = option_map as_pair (edge_label g (nth i (nodes g) 0) (nth j (nodes g) 0))) /\
  (forall x y l, edge_label g' x y = Some l -> In x (nodes g') /\ In y (nodes g')) /\
  (forall u, NoDup (map fst (adj g' u))).

(* the tensor form itself: atomic numbers of the reference table in node order; every edge of
   Graph.edges() twice, as (pos u, pos v) and (pos v, pos u), with the feature row [g, h] *)
Definition to_torch_spec (g : graph) (t : tdata) : Prop :=
  Forall2 (fun (e : Z * (nattr * adjl)) (row : list Z) =>
             exists s z, a_sym (fst (snd e)) = Some s /\ ref_atomic_number s = Some z /\ row = [z])
          g (t_x t) /\
  t_ei t = flat_map (fun e : Z * Z * label =>
                       let i := zindex (fst (fst e)) (nodes g) in
                       let j := zindex (snd (fst e)) (nodes g) in [(i, j); (j, i)]) (edges g) /\
  t_ea t = Some (flat_map (fun e : Z * Z * label => [feat (snd e); feat (snd e)]) (edges g)) /\
  t_batch t = None.

(** * batches *)

(* the running node offsets 0, n0, n0+n1, ... *)
Fixpoint offsets (off : Z) (ts : list tdata) : list Z :=
  match ts with
  | [] => []
  | t :: r => off :: offsets (off + Z.of_nat (List.length (t_x t))) r
  end.

Definition ea_rows (t : tdata) : list (list Z) := match t_ea t with Some a => a | None => [] end.

(* the batch tensors are the members' tensors one after the other, edge indices shifted by the
   number of nodes before the member, plus the vector saying which member a node belongs to *)
Definition batch_spec (ts : list tdata) (b : tdata) : Prop :=
  t_x b = List.concat (map t_x ts) /\
  t_ei b = List.concat (map (fun p : Z * tdata => map (shift (fst p)) (t_ei (snd p))) (combine (offsets 0 ts) ts)) /\
  t_ea b = Some (List.concat (map ea_rows ts)) /\
  t_batch b = Some (List.concat (map (fun p : Z * tdata => repeat (fst p) (List.length (t_x (snd p))))
                                (combine (znats (List.length ts)) ts))).

(* a member as produced by the conversion: indices in range, one feature row per column *)
Definition valid_member (t : tdata) : Prop :=
  t_batch t = None /\
  (exists ea, t_ea t = Some ea /\ List.length ea = List.length (t_ei t)) /\
  (2 <= List.length (t_x t))%nat /\
  (forall p, In p (t_ei t) -> 0 <= fst p < Z.of_nat (List.length (t_x t)) /\ 0 <= snd p < Z.of_nat (List.length (t_x t))).

(** * graph meaning of a tensor graph *)

(* the feature row of the LAST column (u, v), if any *)
Definition arc_label (t : tdata) (u v : Z) : option (list Z) :=
  match t_ea t with
  | None => None
  | Some ea =>
      fold_left (fun acc (c : (Z * Z) * list Z) =>
                   if (fst (fst c) =? u) && (snd (fst c) =? v) then Some (snd c) else acc)
                (combine (t_ei t) ea) None
  end.
Definition has_arc (t : tdata) (u v : Z) : bool := arc_mem u v (t_ei t).

Definition cols_in_range (t : tdata) : Prop :=
  forall p, In p (t_ei t) -> 0 <= fst p < Z.of_nat (List.length (t_x t)) /\ 0 <= snd p < Z.of_nat (List.length (t_x t)).

(** * induced subgraphs *)

Definition both_in (s : list Z) (p : Z * Z) : bool := zmem (fst p) s && zmem (snd p) s.
Definition renumber (s : list Z) (p : Z * Z) : Z * Z := (zindex (fst p) s, zindex (snd p) s).

(* the tensor form of the subgraph induced by the node list s (positions in s = new numbers):
   rows of the kept nodes in the order of s, the columns with both ends kept in their original
   order, renumbered, with their feature rows *)
Definition induced_tensor (t : tdata) (s : list Z) : tdata :=
  mkT (map (fun v => nth (Z.to_nat v) (t_x t) []) s)
      (map (renumber s) (filter (both_in s) (t_ei t)))
      (option_map (fun ea => map snd (filter (fun c : (Z * Z) * list Z => both_in s (fst c)) (combine (t_ei t) ea))) (t_ea t))
      None.

(* the tensor form of the subgraph induced by the column list es: the chosen columns in the given
   order with their feature rows; kept nodes = their end points in ascending order (so the
   relabelling is order preserving) *)
Definition strictly_ascending (l : list Z) : Prop :=
  forall i j, (i < j < List.length l)%nat -> nth i l 0 < nth j l 0.

Definition edge_induced_spec (t : tdata) (es : list Z) (t' : tdata) : Prop :=
  exists sel,
    strictly_ascending sel /\
    (forall v, In v sel <-> exists e, In e es /\ exists p, nth_error (t_ei t) (Z.to_nat e) = Some p /\ (v = fst p \/ v = snd p)) /\
    t_x t' = map (fun v => nth (Z.to_nat v) (t_x t) []) sel /\
    t_ei t' = map (fun e => renumber sel (nth (Z.to_nat e) (t_ei t) (0, 0))) es /\
    t_ea t' = option_map (fun ea => map (fun e => nth (Z.to_nat e) ea []) es) (t_ea t) /\
    t_batch t' = None.

(* the networkx induced subgraph G.subgraph(S) for a predicate on node ids: node order and
   adjacency order are those of G *)
Definition nx_subgraph (keep : Z -> bool) (g : graph) : graph :=
  map (fun e : Z * (nattr * adjl) =>
         (fst e, (fst (snd e), filter (fun vl : Z * label => keep (fst vl)) (snd (snd e)))))
      (filter (fun e : Z * (nattr * adjl) => keep (fst e)) g).

(* positions (in g) of the kept nodes, ascending *)
Definition kept_positions (keep : Z -> bool) (g : graph) : list Z :=
  map fst (filter (fun p : Z * Z => keep (snd p)) (enumerate (nodes g))).

(* the subgraph made of the edges {u, v} with ke u v (ke symmetric) and their end points; node order
   and adjacency order are those of G *)
Definition nx_edge_subgraph (ke : Z -> Z -> bool) (g : graph) : graph :=
  map (fun e : Z * (nattr * adjl) =>
         (fst e, (fst (snd e), filter (fun vl : Z * label => ke (fst e) (fst vl)) (snd (snd e)))))
      (filter (fun e : Z * (nattr * adjl) => existsb (fun vl : Z * label => ke (fst e) (fst vl)) (snd (snd e))) g).

(* the column numbers (2k, 2k+1 for the k-th edge of Graph.edges()) of the chosen edges, ascending *)
Definition chosen_columns (ke : Z -> Z -> bool) (g : graph) : list Z :=
  flat_map (fun p : Z * (Z * Z * label) =>
              if ke (fst (fst (snd p))) (snd (fst (snd p))) then [2 * fst p; 2 * fst p + 1] else [])
           (enumerate (edges g)).

(** * pruning *)

Inductive walk (arc : Z -> Z -> Prop) : nat -> Z -> Z -> Prop :=
| walk_0 : forall u, walk arc 0 u u
| walk_S : forall k u w v, walk arc k u w -> arc w v -> walk arc (S k) u v.

Definition arc_of (t : tdata) (u v : Z) : Prop := In (u, v) (t_ei t).

(* v is within [radius] steps of some start node (a start node is within 0 steps of itself) *)
Definition reach (t : tdata) (start : list Z) (radius : nat) (v : Z) : Prop :=
  exists s k, In s start /\ (k <= radius)%nat /\ walk (arc_of t) k s v.

Definition prune_spec (t : tdata) (start : list Z) (radius : Z) (t' : tdata) : Prop :=
  exists r,
    strictly_ascending r /\
    (forall v, In v r <-> 0 <= v < Z.of_nat (List.length (t_x t)) /\ reach t start (Z.to_nat radius) v) /\
    t' = induced_tensor t r.
