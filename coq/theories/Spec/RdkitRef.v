(** Reference constants of the C19 specification, written by hand from the property text
    ("aromatic lower-case symbols normalised to the element", "every supported order
    1, 1.5, 2, 3, 4") and from RDKit's bond-type names. They are NOT generated: the tables
    regenerated from fgutils/rdkit.py (Gen/RdkitMaps.v) are compared with them by
    [rdkit_maps_ok] in Proofs/RdkitTables.v. Definitions only. *)
From Coq Require Import ZArith List Bool String.
From FGV Require Import Base.Util Base.Bond Base.NX Model.Rdkit.
Import ListNotations.
Local Open Scope string_scope.
Open Scope Z_scope.

(* supported bond orders, half units: 1, 1.5, 2, 3, 4 *)
Definition supported_orders : list Z := [2; 3; 4; 6; 8].

(* order -> RDKit bond type *)
Definition ref_g2m_bond_map : list (Z * string) :=
  [(2, "SINGLE"); (4, "DOUBLE"); (6, "TRIPLE"); (8, "QUADRUPLE"); (3, "AROMATIC")].

(* RDKit bond type -> order; every other type reads as a single bond *)
Definition ref_m2g_bond_map : list (string * Z) :=
  [("SINGLE", 2); ("DOUBLE", 4); ("TRIPLE", 6); ("QUADRUPLE", 8); ("AROMATIC", 3)].
Definition ref_default_bond : Z := 2.

(* aromatic lower-case symbols of the pattern language -> element *)
Definition ref_sym_map : list (string * string) :=
  [("c", "C"); ("n", "N"); ("b", "B"); ("o", "O"); ("p", "P"); ("s", "S")].

Definition ref_norm : string -> string := norm_with ref_sym_map.
Definition ref_to_type : label -> res string := to_type_with ref_g2m_bond_map.
Definition ref_to_order : string -> Z := to_order_with ref_m2g_bond_map ref_default_bond.

Definition supported_label (l : label) : bool :=
  match l with Scalar o => zmem o supported_orders | _ => false end.
