(** Declarative specification of atom-map completion (C20). Definitions only. *)
From Coq Require Import ZArith List Bool String.
From FGV Require Import Base.Util Base.Bond Base.NX Model.Aam.
Import ListNotations.
Open Scope Z_scope.

(** * Specification vocabulary *)

Definition is_least_free (start : Z) (used : list Z) (k : Z) : Prop :=
  start <= k /\ ~ In k used /\ forall j, start <= j < k -> In j used.

Definition same_but_aam (a a' : nattr) : Prop :=
  a_sym a = a_sym a' /\ a_labels a = a_labels a' /\ a_islab a = a_islab a' /\ a_idxmap a = a_idxmap a'.

(* same node ids in the same order, same adjacency, attributes equal except "aam",
   an existing map number is kept *)
Definition entry_rel (e e' : Z * (nattr * adjl)) : Prop :=
  fst e = fst e' /\ snd (snd e) = snd (snd e') /\ same_but_aam (fst (snd e)) (fst (snd e'))
  /\ (forall k, a_aam (fst (snd e)) = Some k -> a_aam (fst (snd e')) = Some k).

Definition all_mapped (g : graph) : Prop :=
  Forall (fun e => exists k, a_aam (fst (snd e)) = Some k) g.

(* the numbers handed out, in node order *)
Fixpoint new_numbers (g g' : graph) : list Z :=
  match g, g' with
  | (_, (a, _)) :: t, (_, (a', _)) :: t' =>
      match a_aam a, a_aam a' with
      | None, Some k => k :: new_numbers t t'
      | _, _ => new_numbers t t'
      end
  | _, _ => []
  end.

Definition complete_spec (g : graph) (off : offset) (g' : graph) : Prop :=
  Forall2 entry_rel g g' /\ all_mapped g' /\
  forall i k, nth_error (new_numbers g g') i = Some k ->
    is_least_free (start_of off (existing_maps g))
                  (existing_maps g ++ firstn i (new_numbers g g')) k.

