(** C01 - the pattern parser is faithful: a graph written in the syntax parses back to itself.
    Only the property theorems; definitions are in Model/Parse.v (the parser), Spec/ParseSpec.v
    (chains, print, sem, denote, wf), proofs in Proofs/{StrFacts,ParseMachine,GraphLaws,LexFacts,ParseProofs}.v.

    Reading guide. A chain t is an abstract linearisation (traversal order, branch nesting, ring
    labels, explicit / implied bond symbols, dots, wildcards, {label} nodes, <g,h> bonds).
    [print t] is its text, [sem t] the abstract graph it stands for: one [ANode p a] per atom (p =
    0, 1, 2, .. in textual order) and one [AEdge p q lb] per written bond that is not a "."
    (lb in half units; a pair as soon as one <g,h> bond occurs). [denote_simple off aam t] /
    [denote_multi off aam t] perform these operations, shifted by the offset, on an empty
    networkx.Graph / MultiGraph. [wf multi t]: symbols from the documented alphabet, no bond
    symbol before a ring-opening mark, adjacent tokens do not run into each other (two ring
    marks, "S" then "n"), rings balanced, no self bond, and for a simple graph no pair bonded twice. *)
From Coq Require Import ZArith List Bool Ascii String.
Import ListNotations.
From FGV Require Import Base.Util Base.Bond Base.NX Base.Regex Base.Str Gen.Lexer
                        Model.NXMulti Model.GraphOps Model.Parse Spec.LexerRef Spec.ParseSpec
                        Proofs.RegexFacts Proofs.ParseMachine Proofs.GraphLaws Proofs.LexFacts Proofs.ParseProofs Proofs.MultiFacts.
Open Scope string_scope.
Open Scope Z_scope.

(* the tables regenerated from fgutils/parse.py are the documented ones *)
Theorem C01_token_spec : token_spec = ref_token_spec.
Proof. exact token_spec_ok. Qed.
Theorem C01_bond_orders : bond_order_table = ref_bond_orders.
Proof. exact bond_table_ok. Qed.
(* ... and on them the non-backtracking matcher of Base/Regex.v computes what a backtracking
   matcher with Python's priorities (first alternative, longest repetition first) computes *)
Theorem C01_regex_exact : forall e, In e token_spec ->
  forall s, bt_match (snd e) s = re_match (snd e) s.
Proof. exact token_spec_exact. Qed.

(* no function of the model depends on its fuel *)
Theorem C01_tokenize_total : forall s, exists l, tokenize s = Some l.
Proof. exact tokenize_total. Qed.
Theorem C01_multigraph_add_edge_total : forall g u v l, exists g', madd_edge g u v l = Some g'.
Proof. exact madd_edge_some. Qed.

(* (b) lexer round trip *)
Theorem C01_lexer_roundtrip : forall t,
  syntax_ok t = true -> wf_lex t = true -> tokenize (print t) = Some (tokens t).
Proof. exact lexer_roundtrip. Qed.

(* the lexical side condition [wf_lex] says exactly: no "S" directly before "n" (would be read
   as tin), no two ring labels next to each other (the digits would merge) *)
Theorem C01_lex_conditions : forall t,
  syntax_ok t = true -> (wf_lex t = true <-> no_collision (tokens t) = true).
Proof. exact wf_lex_iff. Qed.

(* (a) the token machine on the tokens of a chain performs exactly the chain's operations;
   any graph class satisfying the five laws, in particular Graph and MultiGraph *)
Theorem C01_machine : forall G (ops : gops G) view, gops_laws ops view ->
  forall aam off t, wf_core t = true ->
  exists g, build ops (map (realise off aam) (sem t)) = Some g /\
            parse_tokens ops aam off (tokens t) = Ok g /\
            view g = map (node_of off aam) (sem_atoms (sem t)) /\
            map fst (sem_atoms (sem t)) = positions (s_n (sem_final t)).
Proof. exact @parse_tokens_denote. Qed.

(* C01, networkx.Graph: the text of a well-formed chain parses (exactly, including every dict
   order) to the graph it denotes; that graph has one node per atom in textual order numbered
   consecutively from the offset, with the written symbol / labels / is_labeled / aam, and an
   edge between two atoms iff the text bonds them, carrying the written order *)
Theorem C01 : forall aam off t,
  wf false t = true ->
  parse_simple aam off (print t) = Ok (denote_simple off aam t) /\
  nodes_data (denote_simple off aam t) = map (node_of off aam) (sem_atoms (sem t)) /\
  nodes (denote_simple off aam t) = map (fun i => off + Z.of_nat i) (seq 0 (natoms t)) /\
  (forall p q lb, edge_label (denote_simple off aam t) (p + off) (q + off) = Some lb <->
                  In (AEdge p q lb) (sem t) \/ In (AEdge q p lb) (sem t)).
Proof. exact C01_graph. Qed.

(* the parse equation needs neither balanced rings nor the absence of doubly bonded pairs *)
Theorem C01_parse : forall aam off t,
  wf_core t = true -> wf_lex t = true ->
  parse_simple aam off (print t) = Ok (denote_simple off aam t).
Proof. exact parse_simple_denote. Qed.

(* C01, networkx.MultiGraph (use_multigraph=True) *)
Theorem C01_multi : forall aam off t,
  wf true t = true ->
  exists g, parse_multi aam off (print t) = Ok g /\ denote_multi off aam t = Some g /\
            mnodes_data g = map (node_of off aam) (sem_atoms (sem t)) /\
            mnodes g = map (fun i => off + Z.of_nat i) (seq 0 (natoms t)).
Proof. exact C01_multigraph. Qed.

(* ... its parallel edges: one per bond written between the two atoms, keyed 0, 1, 2, .. with the
   written orders in textual order, the same from both ends *)
Theorem C01_multi_edges : forall aam off t g p q,
  denote_multi off aam t = Some g ->
  mlabels g (p + off) (q + off) = hit_labels p q (sem t) /\
  (forall kd, mkeydict g (p + off) (q + off) = Some kd ->
              map fst kd = map Z.of_nat (seq 0 (List.length kd))) /\
  mkeydict g (p + off) (q + off) = mkeydict g (q + off) (p + off).
Proof. exact denote_multi_edges. Qed.

(* an edge of the parsed graph always stems from a written bond, even when a pair is bonded twice *)
Theorem C01_edges_sound : forall aam off t p q lb,
  edge_label (denote_simple off aam t) (p + off) (q + off) = Some lb ->
  In (AEdge p q lb) (sem t) \/ In (AEdge q p lb) (sem t).
Proof. exact denote_edges_sound. Qed.

(* component separators never create an edge *)
Theorem C01_dot_no_edge : forall its s1 s2, bond_label its Dot s1 s2 = None.
Proof. exact dot_no_edge. Qed.
Theorem C01_dots_no_edges : forall aam off t u v,
  dots_norings t = true -> edge_label (denote_simple off aam t) u v = None.
Proof. exact dots_no_edges. Qed.

(* every declared bond order is accepted, including quadruple *)
Theorem C01_quad_label : forall its s1 s2, bond_label its (Sym "$") s1 s2 = Some (lift its 8).
Proof. exact quad_label. Qed.
Theorem C01_quad_accepted : forall aam off a b,
  atom_ok a = true -> atom_ok b = true -> follow_ok (atom_tok a) "$"%char = true ->
  exists g, parse_simple aam off (print (Chain a (RNext (Sym "$") (Chain b RNil)))) = Ok g /\
            edge_label g off (off + 1) = Some (Scalar 8) /\ nodes g = [off; off + 1].
Proof. exact quad_accepted. Qed.

(* non-vacuity: a text with a ring, a branch, an aromatic pair, a dot, a label node, "$" *)
Definition ex_chain : chain :=
  Chain (At "C") (RRing Implied "1"
    (RNext Implied (Chain (At "c") (RBranch (Sym "$") (Chain (Lbl ["grp"; "x"]) RNil)
      (RNext Implied (Chain (At "c") (RRing (Sym "=") "1" (RNext Dot (Chain Wild RNil))))))))).
Example C01_example_wf : wf false ex_chain = true /\ print ex_chain = "C1c(${grp,x})c=1.R".
Proof. vm_compute. split; reflexivity. Qed.
Example C01_example_edges :
  sem_edges (sem ex_chain) = [(0, 1, Scalar 2); (1, 2, Scalar 8); (1, 3, Scalar 3); (3, 0, Scalar 4)].
Proof. vm_compute. reflexivity. Qed.
Example C01_example_multi :
  option_map (fun g => mlabels g 0 1)
    (denote_multi 0 false (Chain (At "C") (RRing Implied "1" (RNext (Sym "=") (Chain (At "C") (RRing Implied "1" RNil))))))
  = Some [Scalar 4; Scalar 2].
Proof. vm_compute. reflexivity. Qed.
Example C01_example_its :
  wf true (Chain (At "C") (RRing Implied "1" (RNext (Rc "2" "") (Chain (At "C") (RRing Implied "1" RNil))))) = true.
Proof. vm_compute. reflexivity. Qed.

Print Assumptions C01_token_spec.
Print Assumptions C01_bond_orders.
Print Assumptions C01_regex_exact.
Print Assumptions C01_tokenize_total.
Print Assumptions C01_multigraph_add_edge_total.
Print Assumptions C01_lexer_roundtrip.
Print Assumptions C01_lex_conditions.
Print Assumptions C01_machine.
Print Assumptions C01.
Print Assumptions C01_parse.
Print Assumptions C01_multi.
Print Assumptions C01_multi_edges.
Print Assumptions C01_edges_sound.
Print Assumptions C01_dot_no_edge.
Print Assumptions C01_dots_no_edges.
Print Assumptions C01_quad_label.
Print Assumptions C01_quad_accepted.
