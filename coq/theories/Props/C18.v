(** C18 -- Tensor conversion round-trips; tensor graph operators match their graph meaning.
    Only the property theorems (proofs are in Proofs/Torch*.v, Proofs/WalkT.v), non-vacuity
    examples, and the assumption audit. Tensors are nested lists (Model/Torch.v); the list
    functions standing for torch / PyG indexing and batching are validated oracles, not proved. *)
From Coq Require Import ZArith List String.
Import ListNotations.
From FGV Require Import Base.Util Base.Bond Base.NX Base.NXFacts Gen.PeriodicTable
  Model.Torch Spec.PeriodicRef Spec.TorchSpec Spec.TorchCheck
  Proofs.TorchTables Proofs.TorchRound Proofs.TorchBatch Proofs.TorchInduced Proofs.TorchPrune Proofs.TorchPruneRc
  Proofs.TorchCheckSound Proofs.TorchInducedGraph Proofs.TorchMeaning Proofs.TorchEdgeGraph Proofs.TorchRefuse.
Open Scope Z_scope.

(** ** periodic table *)

(* the table in fgutils/chem/ps.py (regenerated from the source on every run) is the reference
   table: all 118 elements, IUPAC symbols, in order *)
Theorem C18_ps_table_ok : atomic_data_src = ps_reference.
Proof. exact ps_table_ok. Qed.

(* atomic_sym2num and atomic_num2sym are inverse bijections ... *)
Theorem C18_sym2num_num2sym : forall s z,
  slookup s atomic_sym2num = Some z <-> alookup z atomic_num2sym = Some s.
Proof. exact sym2num_num2sym. Qed.

(* ... and they are the reference functions: node features are the true atomic numbers *)
Theorem C18_sym2num_reference : forall s, slookup s atomic_sym2num = ref_atomic_number s.
Proof. exact sym2num_ref. Qed.
Theorem C18_num2sym_reference : forall z, alookup z atomic_num2sym = ref_symbol z.
Proof. exact num2sym_ref. Qed.

(** ** round trip of a single graph, arbitrary node ids *)

(* For every well-formed ITS graph with tabulated symbols, pair labels and >= 1 edge: the
   conversion succeeds, the tensors are as to_torch_spec says (reference atomic numbers in node
   order; each edge twice, by node POSITION), decoding succeeds, and the decoded graph is g
   renumbered by position: nodes 0..n-1, node i has the symbol (only) of g's i-th node, positions
   i, j are bonded iff the i-th and j-th node of g are, with the same pair (a list label [g,h] comes
   back as the tuple (g,h)), no other edges. *)
Theorem C18_torch_roundtrip : forall g,
  wf g -> tabulated g -> pair_labelled g -> edges g <> [] ->
  exists t g', its_to_torch1 g = Ok t /\ to_torch_spec g t /\
               its_from_torch t = Ok (One g') /\ roundtrip_spec g g'.
Proof. exact torch_roundtrip. Qed.

(* the excluded case: without an edge the way back raises (assert in _build_its) *)
Theorem C18_roundtrip_no_edge : forall g t,
  edges g = [] -> its_to_torch1 g = Ok t -> exists e, its_from_torch t = Err e.
Proof. exact torch_roundtrip_no_edge. Qed.

(* outside the decided domain (untabulated / missing symbol, scalar label, no edge) the round trip of a
   well-formed graph is an error value, never a graph: with C18_domain_sound and C18_torch_roundtrip the
   round trip succeeds exactly on the domain *)
Theorem C18_roundtrip_refuses : forall g,
  wfb g = true -> its_domainb g = false -> exists e, bind (its_to_torch1 g) its_from_torch = Err e.
Proof. exact roundtrip_refuses. Qed.

(** ** batches *)

(* batch tensors = member tensors side by side, edge indices shifted by the running node count *)
Theorem C18_batch_tensors : forall gs b,
  its_to_torch_list gs = Ok b ->
  exists ts, Forall2 (fun g t => its_to_torch1 g = Ok t) gs ts /\ batch_spec ts b.
Proof. exact to_torch_list_memberwise. Qed.

(* the batch decoder returns exactly the member-wise decodings (errors included), for any valid
   member tensors *)
Theorem C18_batch_decode : forall ts b,
  ts <> [] -> Forall valid_member ts -> batch_from_data_list ts = Ok b ->
  its_from_torch b = bind (mapM its_from_torch_data ts) (fun gs => Ok (Many gs)).
Proof. exact batch_decode. Qed.

(* a batch of graphs of the domain (each with >= 2 nodes): converts, decodes, and the i-th decoded
   graph is the round trip of the i-th member *)
Theorem C18_batch_memberwise : forall gs,
  gs <> [] -> Forall its_domain gs -> Forall (fun g => (2 <= List.length g)%nat) gs ->
  exists ts b gs',
    Forall2 (fun g t => its_to_torch1 g = Ok t /\ to_torch_spec g t) gs ts /\
    its_to_torch_list gs = Ok b /\ batch_spec ts b /\
    its_from_torch b = Ok (Many gs') /\
    Forall2 (fun t g' => its_from_torch t = Ok (One g')) ts gs' /\
    Forall2 roundtrip_spec gs gs'.
Proof. exact batch_memberwise. Qed.

(** ** induced subgraphs *)

(* node-induced: new number = position in the given node list (first occurrence order, NOT sorted) *)
Theorem C18_induced_spec_nodes : forall t ns,
  NoDup ns -> ns <> [] ->
  (forall v, In v ns -> 0 <= v < Z.of_nat (List.length (t_x t))) ->
  (t_ea t = None \/
   exists ea, t_ea t = Some ea /\ List.length ea = List.length (t_ei t) /\ filter (both_in ns) (t_ei t) <> []) ->
  node_induced_subgraph t ns = Ok (induced_tensor t ns).
Proof. exact node_induced_ok. Qed.

(* edge-induced: the chosen columns in the given order; kept nodes = their end points, renumbered
   in ascending (order-preserving) order *)
Theorem C18_induced_spec_edges : forall t es,
  es <> [] ->
  (forall e, In e es -> 0 <= e < Z.of_nat (List.length (t_ei t))) ->
  cols_in_range t ->
  (t_ea t = None \/ exists ea, t_ea t = Some ea /\ List.length ea = List.length (t_ei t)) ->
  exists t', edge_induced_subgraph t es = Ok t' /\ edge_induced_spec t es t'.
Proof. exact edge_induced_ok. Qed.

(* the property sentence literally, for node subsets: the node-induced tensor subgraph of the
   tensor form of g (kept positions ascending) IS the tensor form of the induced subgraph of g
   (node order and adjacency order of g), entry for entry *)
Theorem C18_induced_of_graph : forall keep g t,
  wf g -> tabulated g -> pair_labelled g -> its_to_torch1 g = Ok t ->
  edges (nx_subgraph keep g) <> [] ->
  node_induced_subgraph t (kept_positions keep g) = its_to_torch1 (nx_subgraph keep g).
Proof. exact node_induced_of_graph. Qed.

(* graph meaning of an induced tensor for ANY tensor graph and ANY duplicate-free node list (used by
   node_induced_subgraph and by prune): features, arcs and arc features among the kept nodes are
   the old ones *)
Theorem C18_induced_meaning : forall t s i j,
  NoDup s -> (i < List.length s)%nat -> (j < List.length s)%nat ->
  (forall ea, t_ea t = Some ea -> List.length ea = List.length (t_ei t)) ->
  nth i (t_x (induced_tensor t s)) [] = nth (Z.to_nat (nth i s 0)) (t_x t) [] /\
  has_arc (induced_tensor t s) (Z.of_nat i) (Z.of_nat j) = has_arc t (nth i s 0) (nth j s 0) /\
  arc_label (induced_tensor t s) (Z.of_nat i) (Z.of_nat j) = arc_label t (nth i s 0) (nth j s 0).
Proof.
  exact (fun t s i j Hnd Hi Hj Hlen =>
           conj (induced_x t s i Hi)
                (conj (induced_has_arc t s i j Hnd Hi Hj) (induced_arc_label t s i j Hnd Hi Hj Hlen))).
Qed.

(* ... and for edge subsets: whole edges (ke symmetric) in Graph.edges() order, i.e. the columns
   2k, 2k+1 of the chosen edges: the edge-induced tensor subgraph IS the tensor form of the subgraph
   made of these edges and their end points (node order and adjacency order of g) *)
Theorem C18_edge_induced_of_graph : forall ke g t,
  wf g -> tabulated g -> pair_labelled g -> (forall u v, ke u v = ke v u) ->
  its_to_torch1 g = Ok t -> edges (nx_edge_subgraph ke g) <> [] ->
  edge_induced_subgraph t (chosen_columns ke g) = its_to_torch1 (nx_edge_subgraph ke g).
Proof. exact edge_induced_of_graph. Qed.

(** ** pruning *)

(* kept nodes = exactly those within [radius] steps of a start node (start nodes included), in
   ascending order; the result is the tensor form of the subgraph they induce *)
Theorem C18_torch_prune_spec : forall t start radius,
  cols_in_range t ->
  (forall s, In s start -> 0 <= s < Z.of_nat (List.length (t_x t))) ->
  (t_ea t = None \/ exists ea, t_ea t = Some ea /\ List.length ea = List.length (t_ei t)) ->
  exists t', prune t start radius = Ok t' /\ prune_spec t start radius t'.
Proof. exact torch_prune_ok. Qed.

(* prune_rc: the start set is exactly the set of source nodes of the edge columns whose two bond components
   differ, ascending and without repeats ... *)
Theorem C18_prune_rc_start : forall t st,
  rc_start_nodes t = Ok st ->
  exists ea, t_ea t = Some ea /\ ea <> [] /\ List.length ea = List.length (t_ei t) /\
    (forall r, In r ea -> List.length r = 2%nat) /\
    strictly_ascending st /\ (forall v, In v st <-> rc_source t ea v).
Proof. exact rc_start_nodes_spec. Qed.

(* ... and the result is the prune result for that start set: the tensor form of the subgraph induced by the nodes
   within [radius] steps of the reaction centre *)
Theorem C18_torch_prune_rc_spec : forall t radius,
  cols_in_range t ->
  forall st, rc_start_nodes t = Ok st ->
  exists t', prune_rc t radius = Ok t' /\ prune_spec t st radius t'.
Proof. exact torch_prune_rc_ok. Qed.

(* a sample without a changing bond has an empty reaction centre *)
Theorem C18_prune_rc_no_change : forall t st,
  rc_start_nodes t = Ok st ->
  (forall ea, t_ea t = Some ea -> forall c, In c (combine (t_ei t) ea) -> nth 0 (snd c) 0 = nth 1 (snd c) 0) ->
  st = [].
Proof. exact rc_start_nodes_none. Qed.

(** ** the checkers run on implementation outputs are sound *)

Theorem C18_domain_sound : forall g, its_domainb g = true -> its_domain g.
Proof. exact its_domainb_sound. Qed.

Theorem C18_roundtrip_checker_sound : forall g g',
  its_domainb g = true -> roundtrip_okb g (Ok (One g')) = true -> roundtrip_spec g g'.
Proof. exact roundtrip_okb_sound. Qed.

Theorem C18_batch_checker_sound : forall gs ms b gs',
  forallb its_domainb gs = true -> forallb (fun g : graph => (2 <=? List.length g)%nat) gs = true -> gs <> [] ->
  batch_okb gs ms (Ok b) (Ok (Many gs')) = true ->
  batch_spec ms b /\ Forall2 roundtrip_spec gs gs'.
Proof. exact batch_okb_sound. Qed.

Theorem C18_node_induced_checker_sound : forall t ns t',
  node_induced_domainb t ns = true -> node_induced_okb t ns (Ok t') = true -> t' = induced_tensor t ns.
Proof. exact node_induced_okb_sound. Qed.

Theorem C18_edge_induced_checker_sound : forall t es t',
  edge_induced_domainb t es = true -> edge_induced_okb t es (Ok t') = true -> edge_induced_spec t es t'.
Proof. exact edge_induced_okb_sound. Qed.

Theorem C18_prune_checker_sound : forall t start radius t',
  prune_domainb t start = true -> prune_okb t start radius (Ok t') = true -> prune_spec t start radius t'.
Proof. exact prune_okb_sound. Qed.

(** ** non-vacuity *)

Local Open Scope string_scope.

(* ids 1..3 as the ITS class produces them (the D19 situation), a list label, a 1.5 bond *)
Definition ex_g : graph :=
  [(1, (na_sym "C", [(2, Pair 2 4)]));
   (3, (na_sym "Cl", [(2, LPair 3 2)]));
   (2, (na_sym "O", [(1, Pair 2 4); (3, LPair 3 2)]))].

Example C18_example_domain : its_domainb ex_g = true.
Proof. vm_compute. reflexivity. Qed.

Example C18_example_roundtrip :
  bind (its_to_torch1 ex_g) its_from_torch
  = Ok (One [(0, (na_sym "C", [(2, Pair 2 4)]));
             (1, (na_sym "Cl", [(2, Pair 3 2)]));
             (2, (na_sym "O", [(0, Pair 2 4); (1, Pair 3 2)]))]).
Proof. vm_compute. reflexivity. Qed.

Example C18_example_tensor :
  its_to_torch1 ex_g = Ok (mkT [[6]; [17]; [8]] [(0, 2); (2, 0); (1, 2); (2, 1)]
                               (Some [[2; 4]; [2; 4]; [3; 2]; [3; 2]]) None).
Proof. vm_compute. reflexivity. Qed.

(* pentane, start node 0, radius 1 keeps {0, 1} (the D13 situation) *)
Definition ex_p5 : tdata :=
  mkT [[6]; [6]; [6]; [6]; [6]] [(0, 1); (1, 2); (2, 3); (3, 4); (1, 0); (2, 1); (3, 2); (4, 3)] None None.

Example C18_example_prune :
  prune ex_p5 [0] 1 = Ok (mkT [[6]; [6]] [(0, 1); (1, 0)] None None)
  /\ prune_okb ex_p5 [0] 1 (prune ex_p5 [0] 1) = true.
Proof. vm_compute. split; reflexivity. Qed.

Example C18_example_induced :
  let keep := fun n : Z => negb (Z.eqb n 1) in
  kept_positions keep ex_g = [1; 2]
  /\ bind (its_to_torch1 ex_g) (fun t => node_induced_subgraph t (kept_positions keep ex_g))
     = Ok (mkT [[17]; [8]] [(0, 1); (1, 0)] (Some [[3; 2]; [3; 2]]) None)
  /\ its_to_torch1 (nx_subgraph keep ex_g) = Ok (mkT [[17]; [8]] [(0, 1); (1, 0)] (Some [[3; 2]; [3; 2]]) None).
Proof. vm_compute. repeat split; reflexivity. Qed.

Example C18_example_edge_induced :
  let ke := fun u v : Z => orb (andb (Z.eqb u 1) (Z.eqb v 2)) (andb (Z.eqb u 2) (Z.eqb v 1)) in
  bind (its_to_torch1 ex_g) (fun t => edge_induced_subgraph t (chosen_columns ke ex_g))
  = its_to_torch1 (nx_edge_subgraph ke ex_g)
  /\ chosen_columns ke ex_g = [0; 1].
Proof. vm_compute. split; reflexivity. Qed.

Example C18_example_batch :
  batch_okb [ex_g; ex_g] [] (Err KeyError) (Err KeyError) = false
  /\ (exists b gs, its_to_torch_list [ex_g; ex_g] = Ok b /\ its_from_torch b = Ok (Many gs) /\ List.length gs = 2%nat).
Proof. split; [vm_compute; reflexivity|]. eexists. eexists. vm_compute. repeat split; reflexivity. Qed.

Print Assumptions C18_ps_table_ok.
Print Assumptions C18_sym2num_num2sym.
Print Assumptions C18_sym2num_reference.
Print Assumptions C18_num2sym_reference.
Print Assumptions C18_torch_roundtrip.
Print Assumptions C18_roundtrip_no_edge.
Print Assumptions C18_roundtrip_refuses.
Print Assumptions C18_batch_tensors.
Print Assumptions C18_batch_decode.
Print Assumptions C18_batch_memberwise.
Print Assumptions C18_induced_spec_nodes.
Print Assumptions C18_induced_spec_edges.
Print Assumptions C18_induced_of_graph.
Print Assumptions C18_induced_meaning.
Print Assumptions C18_edge_induced_of_graph.
Print Assumptions C18_torch_prune_spec.
Print Assumptions C18_domain_sound.
Print Assumptions C18_roundtrip_checker_sound.
Print Assumptions C18_batch_checker_sound.
Print Assumptions C18_node_induced_checker_sound.
Print Assumptions C18_edge_induced_checker_sound.
Print Assumptions C18_prune_checker_sound.

(** ** soundness of the remaining checkers (tensor form, raw decoding, adjacency matrix) *)
From FGV Require Import Spec.TorchSpec2 Proofs.TorchCheckSound2.

(* an implementation tensor accepted for a graph of the conversion domain has the graph's meaning:
   reference atomic numbers, indices in range, two columns per edge, arc i -> j with row [g, h] exactly
   when the i-th and j-th node are bonded with (g, h); outside the domain only a refusal is accepted *)
Theorem C18_to_torch_checker_sound :
  (forall g t, to_torch_domainb g = true -> to_torch_okb g (Ok t) = true -> to_torch_meaning g t) /\
  (forall g out, to_torch_domainb g = false -> to_torch_okb g out = true -> exists e, out = Err e).
Proof. exact (conj to_torch_okb_sound to_torch_okb_refuses). Qed.

(* a graph accepted as the decoding of a raw single tensor of the checker's domain is the graph meaning
   of that tensor (nodes 0..n-1 with the reference symbols, label of the last joining column, nothing
   else); for a batch the accepted list has one well-formed, 0..k-1 numbered graph per batch id and
   accounts for every node; shapes never mix *)
Theorem C18_from_torch_checker_sound :
  (forall t g', t_batch t = None -> raw_domainb t = true ->
     from_torch_okb (Ok t) (Ok (One g')) = true -> raw_graph_spec t g') /\
  (forall t b gs, t_batch t = Some b ->
     from_torch_okb (Ok t) (Ok (Many gs)) = true -> raw_batch_spec t b gs) /\
  (forall t out, from_torch_okb (Ok t) out = true ->
     match t_batch t, out with
     | None, Ok (Many _) => raw_domainb t = false
     | Some _, Ok (One _) => False
     | _, _ => True
     end).
Proof. exact (conj from_torch_okb_sound_single (conj from_torch_okb_sound_batch from_torch_okb_shape)). Qed.

(* an accepted adjacency matrix is n x n with entry (i, j) = 1 exactly for the columns (i, j) *)
Theorem C18_adjacency_checker_sound : forall t m,
  forallb (in_rangeb (List.length (t_x t))) (t_ei t) = true ->
  adjacency_okb t (Ok m) = true -> adjacency_spec t m.
Proof. exact adjacency_okb_sound. Qed.

(* non-vacuity: the model's own outputs on the examples pass these checkers *)
Example C18_example_checkers2 :
  to_torch_okb ex_g (its_to_torch1 ex_g) = true
  /\ from_torch_okb (its_to_torch1 ex_g) (bind (its_to_torch1 ex_g) its_from_torch) = true
  /\ raw_domainb (mkT [[6]; [17]; [8]] [(0, 2); (2, 0); (1, 2); (2, 1)] (Some [[2; 4]; [2; 4]; [3; 2]; [3; 2]]) None) = true
  /\ adjacency_okb ex_p5 (get_adjacency_matrix ex_p5) = true.
Proof. vm_compute. repeat split; reflexivity. Qed.

Print Assumptions C18_to_torch_checker_sound.
Print Assumptions C18_from_torch_checker_sound.
Print Assumptions C18_adjacency_checker_sound.
Print Assumptions C18_prune_rc_start.
Print Assumptions C18_torch_prune_rc_spec.
Print Assumptions C18_prune_rc_no_change.
