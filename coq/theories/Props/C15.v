(** C15 — generated reactions are balanced and mapped; Diels-Alder samples have DA centres.
    This file holds only the property theorems; proofs live in Proofs/ReactionProofs.v,
    Proofs/ProxyDAAll.v. The general theorem uses the C13 theorem (as C14) and three C10 theorems
    about split_its / get_its (Proofs/SplitProofs.v), plugged in by Proofs/ProxyGenTop.v; no
    hypothesis about another part of the development is left. The Diels-Alder theorems are finite
    facts about the shipped configuration (Gen/ProxyDA.v, regenerated from the source on every run),
    decided by evaluation in the kernel. *)
From Coq Require Import ZArith List String.
Import ListNotations.
From FGV Require Import Base.Util Base.Bond Base.NX Base.NXMulti Model.Proxy Model.Its Model.ProxyGen Model.ProxyDict Model.ProxyTree
  Spec.ProxySpec Spec.ProxyGenSpec Spec.ProxyGenCheck Spec.ProxyParserCheck Spec.ItsSpec Spec.ReactionSpec Gen.ProxyDA
  Proofs.ReactionProofs Proofs.ProxyDAAll Proofs.ProxyGenTop Proofs.ReactionCheckProofs.
Open Scope string_scope.
Open Scope Z_scope.
Set Warnings "-abstract-large-number".

(* Every sample (g, h) of a reaction proxy with enable_aam: same atoms, same attributes (symbols, atom
   map id + 1) on both sides, each side keeps its component of every bond, and get_its g h is the
   expanded ITS graph with atoms named by their map number. *)
Theorem C15_reactions :
  forall cfg, cfg_ok cfg -> acyclic (cfg_groups cfg) -> cfg_aam cfg = true ->
  exists itss, proxy_all cfg = (itss, GDone)
    /\ reaction_all cfg = (map split_its itss, GDone)
    /\ List.length itss = count_cfg cfg
    /\ Forall reaction_sample_ok itss.
Proof. exact top_reactions. Qed.

(* the decidable checker the harness runs on every (expanded ITS graph, g, h) triple is sound *)
Theorem C15_checker_sound : forall its g h,
  C15_okb its g h = true ->
  contiguous its
  /\ (forall n, In n (nodes its) <-> In n (nodes g))
  /\ (forall n, In n (nodes its) <-> In n (nodes h))
  /\ (forall n, In n (nodes its) ->
        exists a b c, node_attr its n = Some a /\ node_attr g n = Some b /\ node_attr h n = Some c
                      /\ a_sym a = a_sym b /\ a_sym a = a_sym c
                      /\ a_aam a = Some (n + 1) /\ a_aam b = Some (n + 1) /\ a_aam c = Some (n + 1))
  /\ (forall u v, In u (nodes its) -> In v (nodes its) ->
        superpose g h u v = norm_its_label (edge_label its u v)).
Proof. exact C15_okb_sound. Qed.

(* The shipped Diels-Alder proxy, positive mode: the iteration ends normally after exactly 10470
   samples and every sample passes da_sample_ok (reaction centre = one six-membered carbon cycle with
   two bonds formed, one single bond becoming double, three bonds dropping by one order with at
   most one 3 -> 2; both sides valence-valid). *)
Theorem C15_DA_positive :
  snd (proxy_all DA_pos) = GDone /\ List.length (fst (proxy_all DA_pos)) = 10470%nat
  /\ forallb da_sample_ok (fst (reaction_all DA_pos)) = true.
Proof. exact (da_all_okb_spec DA_pos 10470 DA_pos_all_okb). Qed.

(* negative mode: 12875 samples *)
Theorem C15_DA_negative :
  snd (proxy_all DA_neg) = GDone /\ List.length (fst (proxy_all DA_neg)) = 12875%nat
  /\ forallb da_sample_ok (fst (reaction_all DA_neg)) = true.
Proof. exact (da_all_okb_spec DA_neg 12875 DA_neg_all_okb). Qed.

(* non-vacuity: test/test_proxy.py::test_reaction_generation
   ReactionProxy("CC(<2,1>O)<0,1>{nucleophile}", nucleophile = "C#N") *)
Example C15_example :
  let core : mgraph :=
    [(0, (mkNA (Some "C") None (Some []) (Some false) None, [(1, [(0, Pair 2 2)])]));
     (1, (mkNA (Some "C") None (Some []) (Some false) None, [(0, [(0, Pair 2 2)]); (2, [(0, Pair 4 2)]); (3, [(0, Pair 0 2)])]));
     (2, (mkNA (Some "O") None (Some []) (Some false) None, [(1, [(0, Pair 4 2)])]));
     (3, (mkNA (Some "#") None (Some ["nucleophile"]) (Some true) None, [(1, [(0, Pair 0 2)])]))] in
  let cn : mgraph :=
    [(0, (mkNA (Some "C") None (Some []) (Some false) None, [(1, [(0, Scalar 6)])]));
     (1, (mkNA (Some "N") None (Some []) (Some false) None, [(0, [(0, Scalar 6)])]))] in
  let cfg := mkCfg [mkPG core [0]] [("nucleophile", mkGrp "nucleophile" [mkPG cn [0]])] true in
  match reaction_all cfg with
  | ([(g, h)], GDone) =>
      (edges g, edges h) =
      ([(0, 1, Scalar 2); (1, 2, Scalar 4); (3, 4, Scalar 6)],
       [(0, 1, Scalar 2); (1, 2, Scalar 2); (1, 3, Scalar 2); (3, 4, Scalar 6)])
      /\ C15_okb (hd [] (fst (proxy_all cfg))) g h = true /\ cfg_hypb cfg = true
  | _ => False
  end.
Proof. vm_compute. repeat split; reflexivity. Qed.

Print Assumptions C15_reactions.
Print Assumptions C15_checker_sound.
Print Assumptions C15_DA_positive.
Print Assumptions C15_DA_negative.
Print Assumptions C15_example.
