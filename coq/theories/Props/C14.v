(** C14 — proxy expansion is exhaustive and conservative.
    This file holds only the property theorems; proofs live in Proofs/ProxyGen*.v, Proofs/ProxyDA*.v.
    No theorem here has a hypothesis about another part of the development: the proofs use the C13
    theorem for replace_node on MultiGraphs (Proofs/ProxyMultiProofs.v) and facts about
    MultiGraph.copy() proved in Proofs/NXMultiCopyFacts.v (C14_copy); Proofs/ProxyGenTop.v plugs
    them in. *)
From Coq Require Import ZArith List String Permutation.
Import ListNotations.
From FGV Require Import Base.Util Base.Bond Base.NX Base.NXMulti Model.Proxy Model.ProxyGen Model.ProxyDict Model.ProxyTree
  Proofs.ProxyDictTreeProofs Proofs.ProxyDictTop
  Spec.ProxySpec Spec.ProxyGenSpec Spec.ProxyGenCheck Spec.ProxyRefCheck Spec.ProxyParserCheck Spec.ProxyBondSpec Gen.ProxyDA
  Proofs.ProxyGenProofs Proofs.ProxyGenMain Proofs.ProxyGenCheckProofs Proofs.ProxyDAProofs
  Proofs.ProxyBondsTop Proofs.ProxyRefCheckProofs Proofs.ProxyDASigs Proofs.NXMultiCopyFacts Proofs.ProxyGenTop.
From FGV Require Import Proofs.GenParsedDA.
Open Scope string_scope.
Open Scope Z_scope.
Set Warnings "-abstract-large-number".

(* The generator visits every core graph once and then stops: the fuel of the sampling loop always
   suffices (no hypothesis). *)
Theorem C14_generator_stops : forall cfg, proxy_all cfg = gen_for cfg (cfg_core cfg).
Proof. exact proxy_all_eq. Qed.

(* Count, stop, ids, no leftover group labels: for a well-formed acyclic configuration the iteration
   ends normally (StopIteration, no exception, the working-set loop never runs out of fuel), yields
   exactly count_cfg graphs (sum over core graphs of the product over group nodes of the number of
   expansions of the node's group), and every result has ids 0..n-1, no node labelled with a
   configured group, and aam = id + 1 when enable_aam is set. *)
Theorem C14_count :
  forall cfg, cfg_ok cfg -> acyclic (cfg_groups cfg) ->
  exists results, proxy_all cfg = (results, GDone)
    /\ List.length results = count_cfg cfg
    /\ Forall (result_ok cfg) results.
Proof. exact top_count. Qed.

(* Exhaustive: per core graph, build_graphs returns exactly the end points of the complete choice
   sequences (derivations that always substitute the first group node in node order), and the
   generator yields their collapsed forms in order. *)
Theorem C14_exhaustive :
  forall cfg, cfg_ok cfg -> acyclic (cfg_groups cfg) ->
  exists outs,
    Forall2 (fun c out =>
               build_graphs (cfg_groups cfg) c = GOk out
               /\ List.length out = count_graph (cfg_groups cfg) (pg_graph c)
               /\ (forall r, In r out <-> exists cs, derives (cfg_groups cfg) (pg_graph c) cs r)
               /\ Forall (fun r => pattern_ok (cfg_groups cfg) r
                                   /\ forall e, In e r -> is_group_attr (cfg_groups cfg) (fst (snd e)) = false) out)
            (cfg_core cfg) outs
    /\ proxy_all cfg = (map (finish (cfg_aam cfg)) (List.concat outs), GDone).
Proof. exact top_structure. Qed.

(* Conservative, atoms: the multiset of atom symbols of a result is the union of the non-group
   symbols of the core pattern and of the patterns chosen along its derivation. *)
Theorem C14_symbols :
  forall cfg c cs r, cfg_ok cfg -> acyclic (cfg_groups cfg) -> In c (cfg_core cfg) ->
  derives (cfg_groups cfg) (pg_graph c) cs r ->
  Permutation (symbols (finish (cfg_aam cfg) r))
              (plain_symbols (cfg_groups cfg) (pg_graph c)
               ++ flat_map (fun sg => plain_symbols (cfg_groups cfg) (pg_graph sg)) cs).
Proof. exact top_symbols. Qed.

(* Conservative, bonds. Along the derivation of a result r (MultiGraph, before the collapse): the
   bonds of r, together with the bonds that were incident to nodes replaced by the empty pattern at
   the moment of their replacement, are the bonds of the core pattern and of all chosen patterns;
   nothing is removed when no chosen pattern is empty. After nx.Graph(multigraph): the same multiset,
   provided r has no parallel bonds. *)
Theorem C14_bonds :
  forall cfg c cs r, cfg_ok cfg -> cfg_loopfree cfg -> In c (cfg_core cfg) ->
  derives (cfg_groups cfg) (pg_graph c) cs r ->
  bonds_conserved (pg_graph c) cs r
  /\ (no_parallel r -> Permutation (bonds (finish (cfg_aam cfg) r)) (mbonds r)).
Proof. exact top_bonds. Qed.

(* Without the no-parallel condition the statement for the collapsed graph is false:
   Proxy("C1{g}1", ProxyGroup("g", "C")) satisfies every hypothesis, its only expansion has two
   parallel C-C bonds, and nx.Graph(multigraph) keeps one of them. *)
Definition C14_bonds_collapsed_statement : Prop :=
  forall cfg c r, cfg_hypb cfg = true -> cfg_loopfreeb cfg = true -> In c (cfg_core cfg) ->
    build_graphs (cfg_groups cfg) c = GOk [r] ->
    List.length (bonds (finish (cfg_aam cfg) r)) = List.length (mbonds r).

Theorem C14_collapse_refuted :
  cfg_hypb collapse_cfg = true /\ cfg_loopfreeb collapse_cfg = true
  /\ exists r, build_graphs (cfg_groups collapse_cfg) (mkPG collapse_core [0]) = GOk [r]
               /\ mbonds r = [Scalar 2; Scalar 2]
               /\ bonds (finish (cfg_aam collapse_cfg) r) = [Scalar 2].
Proof. exact collapse_refuted. Qed.

Theorem C14_loopfree_decidable : forall cfg, cfg_ok cfg -> cfg_loopfreeb cfg = true -> cfg_loopfree cfg.
Proof. exact cfg_loopfreeb_sound. Qed.

(* what the checker the harness runs on every enumeration decides *)
Theorem C14_checker_sound : forall cfg results,
  cfg_hypb cfg = true -> patterns_ordered cfg = true -> C14_full_okb cfg results = true ->
  List.length results = count_cfg cfg
  /\ Forall (result_ok cfg) results
  /\ exists leaves, ref_all cfg = Some leaves /\ List.length leaves = count_cfg cfg
                    /\ sigs_eqb (map sig_of_graph results) (map sig_of_leaf leaves) = true.
Proof. exact C14_full_okb_sound. Qed.

(* MultiGraph.copy() of a well-formed multigraph: well-formed, same node list, same attributes, same
   bonds between every two nodes (proved from the networkx model, Proofs/NXMultiCopyFacts.v) *)
Theorem C14_copy : mcopy_statement /\ mcopy_bonds_statement.
Proof. exact (conj mcopy_statement_holds mcopy_bonds_statement_holds). Qed.

(* the hypotheses are decidable: the checker the harness evaluates is sound *)
Theorem C14_hypotheses_decidable : forall cfg, cfg_hypb cfg = true -> cfg_ok cfg /\ acyclic (cfg_groups cfg).
Proof. exact cfg_hypb_sound. Qed.

(* The shipped Diels-Alder configuration (regenerated from the source on every run) satisfies the
   hypotheses, and the count formula gives the documented numbers of samples. *)
Theorem C14_DA_hypotheses : cfg_hypb DA_pos = true /\ cfg_hypb DA_neg = true.
Proof. exact (conj DA_pos_hyp DA_neg_hyp). Qed.

Theorem C14_DA_count_formula : count_cfg DA_pos = 10470%nat /\ count_cfg DA_neg = 12875%nat.
Proof. exact (conj DA_pos_count_formula DA_neg_count_formula). Qed.

Theorem C14_DA_count_pos :
  exists results, proxy_all DA_pos = (results, GDone) /\ List.length results = 10470%nat
                  /\ Forall (result_ok DA_pos) results.
Proof. exact top_DA_pos. Qed.

Theorem C14_DA_count_neg :
  exists results, proxy_all DA_neg = (results, GDone) /\ List.length results = 12875%nat
                  /\ Forall (result_ok DA_neg) results.
Proof. exact top_DA_neg. Qed.

(* The shipped Diels-Alder configuration, both modes, on the model (no hypotheses, evaluation in the
   kernel): over the whole enumeration the multiset of (atom symbols, bond labels) signatures of the
   results equals the one the reference expander computes from the configuration; no expansion has
   parallel bonds (the collapse loses nothing); no pattern has a self-loop. *)
Theorem C14_DA_signatures :
  C14_full_okb DA_pos (fst (proxy_all DA_pos)) = true /\ C14_full_okb DA_neg (fst (proxy_all DA_neg)) = true.
Proof. exact (conj DA_pos_signatures DA_neg_signatures). Qed.

Theorem C14_DA_no_parallel :
  C14_parallel_leaf DA_pos = false /\ C14_parallel_leaf DA_neg = false
  /\ cfg_loopfreeb DA_pos = true /\ cfg_loopfreeb DA_neg = true
  /\ patterns_ordered DA_pos = true /\ patterns_ordered DA_neg = true.
Proof.
  exact (conj (proj1 DA_no_parallel) (conj (proj2 DA_no_parallel)
        (conj (proj1 DA_loopfree) (conj (proj2 DA_loopfree)
        (conj (proj1 DA_patterns_ordered) (proj2 DA_patterns_ordered)))))).
Qed.

(* non-vacuity: the documentation example Proxy("C{g}", ProxyGroup("g", ["C", "O", "N"])) *)
Definition doc_core : mgraph :=
  [(0, (mkNA (Some "C") None (Some []) (Some false) None, [(1, [(0, Scalar 2)])]));
   (1, (mkNA (Some "#") None (Some ["g"]) (Some true) None, [(0, [(0, Scalar 2)])]))].
Definition doc_atom (s : string) : pgraph := mkPG [(0, (mkNA (Some s) None (Some []) (Some false) None, []))] [0].
Definition doc_cfg : config :=
  mkCfg [mkPG doc_core [0]] [("g", mkGrp "g" [doc_atom "C"; doc_atom "O"; doc_atom "N"])] true.

Example C14_doc_example :
  (map symbols (fst (proxy_all doc_cfg)), snd (proxy_all doc_cfg), count_cfg doc_cfg, cfg_hypb doc_cfg)
  = ([[Some "C"; Some "C"]; [Some "C"; Some "O"]; [Some "C"; Some "N"]], GDone, 3%nat, true).
Proof. vm_compute. reflexivity. Qed.

(* the pattern graphs of Gen/ProxyDA.v (dumped from the live module objects through the real parser) are exactly
   what the Coq model of the parser returns on the pattern strings: the Diels-Alder theorems speak about the
   strings of the shipped collections read through the parser model that C01 ties to fgutils.parse *)
Theorem C14_DA_patterns_parsed : da_patterns_parsedb = true.
Proof. exact da_patterns_parsed. Qed.

(* Construction paths. Proxy.from_dict / ProxyGroup.from_dict(_single) are modelled in Model/ProxyDict.v
   (normalisation of the accepted dict forms to a configuration, with the exceptions the cascade raises).
   Writing a configuration in canonical dict form ({"graphs": [{"pattern": .., "anchor": ..}, ..]} for every
   group, the core as a list) and normalising it is the identity, for every configuration whose groups are
   stored under their own names and have graphs and whose core graphs carry the default anchor; hence the
   theorems above apply to proxies built from dicts. *)
Theorem C14_from_dict_canonical : forall cfg, dict_representable cfg ->
  proxy_from_dict mgraph (fun g => g) (JKList (map pg_graph (cfg_core cfg)))
                  (canon_groups mgraph (dict_groups_of (cfg_groups cfg))) (Some (cfg_aam cfg)) = JOk cfg.
Proof. exact from_dict_identity. Qed.

Theorem C14_from_dict_count : forall cfg,
  dict_representable cfg -> cfg_ok cfg -> acyclic (cfg_groups cfg) ->
  exists c results,
    proxy_from_dict mgraph (fun g => g) (JKList (map pg_graph (cfg_core cfg)))
                    (canon_groups mgraph (dict_groups_of (cfg_groups cfg))) (Some (cfg_aam cfg)) = JOk c
    /\ proxy_all c = (results, GDone) /\ List.length results = count_cfg c /\ Forall (result_ok c) results.
Proof. exact from_dict_count. Qed.

(* build_group_tree (Model/ProxyTree.v; documentation vs code, not one of the properties). Its docstring
   says "The number of leave nodes in this tree is the number of possible samples". What the tree has:
   tnodes nodes and tleaves leaves, where a group whose graphs carry no labels is ONE leaf however many
   graphs it has, and otherwise the leaves of the referenced groups ADD UP over all graphs, labelled
   nodes and labels (the number of samples multiplies over the labelled nodes of a graph). *)
Theorem C14_group_tree_counts : forall core_name cfg es,
  group_tree core_name cfg = TOk es ->
  let gl := map snd (cfg_groups cfg) in
  let core := mkGrp core_name (cfg_core cfg) in
  List.length es = tnodes (tree_fuel gl) gl core /\ tree_leaves es = tleaves (tree_fuel gl) gl core.
Proof. exact group_tree_counts. Qed.

(* the claim is false: Proxy("C{g}", g = ["C","O","N"]) has 3 samples and a tree with 1 leaf;
   Proxy("{g}{g}", g = ["C","O"]) has 2 * 2 = 4 samples and a tree with 1 + 1 = 2 leaves *)
Theorem C14_group_tree_claim_refuted :
  (cfg_hypb tree_cfg1 = true
   /\ group_tree "core" tree_cfg1 = TOk [("core_#0", ["g_#1"]); ("g_#1", ["core_#0"])]
   /\ tree_leaves [("core_#0", ["g_#1"]); ("g_#1", ["core_#0"])] = 1%nat
   /\ count_cfg tree_cfg1 = 3%nat /\ List.length (fst (proxy_all tree_cfg1)) = 3%nat)
  /\ (cfg_hypb tree_cfg2 = true
      /\ group_tree "core" tree_cfg2
         = TOk [("core_#0", ["g_#1"; "g_#2"]); ("g_#1", ["core_#0"]); ("g_#2", ["core_#0"])]
      /\ tree_leaves [("core_#0", ["g_#1"; "g_#2"]); ("g_#1", ["core_#0"]); ("g_#2", ["core_#0"])] = 2%nat
      /\ count_cfg tree_cfg2 = 4%nat /\ List.length (fst (proxy_all tree_cfg2)) = 4%nat).
Proof. exact group_tree_claim_refuted. Qed.

Print Assumptions C14_generator_stops.
Print Assumptions C14_count.
Print Assumptions C14_exhaustive.
Print Assumptions C14_symbols.
Print Assumptions C14_bonds.
Print Assumptions C14_collapse_refuted.
Print Assumptions C14_loopfree_decidable.
Print Assumptions C14_checker_sound.
Print Assumptions C14_copy.
Print Assumptions C14_hypotheses_decidable.
Print Assumptions C14_DA_hypotheses.
Print Assumptions C14_DA_count_formula.
Print Assumptions C14_DA_count_pos.
Print Assumptions C14_DA_count_neg.
Print Assumptions C14_DA_signatures.
Print Assumptions C14_DA_no_parallel.
Print Assumptions C14_doc_example.
Print Assumptions C14_DA_patterns_parsed.
Print Assumptions C14_from_dict_canonical.
Print Assumptions C14_from_dict_count.
Print Assumptions C14_group_tree_counts.
Print Assumptions C14_group_tree_claim_refuted.
