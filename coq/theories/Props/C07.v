(** C07 -- the group hierarchy is the specificity order, however the list is given.
    This file holds only the property theorems; proofs live in Proofs/{SortFacts,KeyOrder,
    FGTreeProofs,FGCheckProofs,FGDefaultTree}.v.

    Model: Model/FGTree.v (sort_by_pattern_len, is_subgroup, search_parents, add_child,
    build_config_tree_from_list of fgutils/fgconfig.py).  The tree is a table: node i is the
    i-th configuration in sort order, children are positions. *)
From Coq Require Import ZArith List Bool String Permutation Sorted Relations.
Import ListNotations.
From FGV Require Import Base.Util Base.Bond Base.NX Base.NXFacts Model.Permute Model.Match Model.FGTree Model.FGDefaultCfg
                        Spec.Embedding Spec.EmbSearch Spec.FGCheck Spec.FGSpec
                        Proofs.SortFacts Proofs.KeyOrder Proofs.FGTreeProofs Proofs.FGCheckProofs Proofs.FGDefaultTree Proofs.FGDefaultFacts
                        Spec.QuerySpec Proofs.EmbeddingOrder Proofs.SubgroupSem Proofs.EmbSearchProofs Proofs.KeyStrict Proofs.ConcreteHasse Proofs.RefBridge Proofs.QueryClosed.
From FGV Require Import Proofs.GenParsed.
From FGV Require Import Proofs.MatchTotal Proofs.ConcreteHasseTotal.

(** * Abstract part: any item type, is_subgroup abstracted to [sub] with Boolean value [subb]
      on the list, [kltb a b] = "order_id a < order_id b".

    Hypotheses: the key comparison is a strict order, total on the list (pairwise distinct
    keys); sub never raises on the list; sub a b implies key a < key b (hence sub is
    irreflexive); sub is transitive on the list. *)

(* hasse_insert: construction succeeds (the fuel is never exhausted); the table lists the items
   in sort order; b is a child of a exactly when a covers b (a sub b and nothing of the list
   lies strictly between); the roots are exactly the sub-minimal items; children lists are
   strictly descending and the root list strictly ascending in sort position. *)
Theorem C07_hasse_insert : forall (A : Type) (sub : A -> A -> res bool) (subb kltb : A -> A -> bool),
  (forall a, kltb a a = false) ->
  (forall a b c, kltb a b = true -> kltb b c = true -> kltb a c = true) ->
  forall l : list A, NoDup l -> total_on kltb l ->
  (forall a b, In a l -> In b l -> sub a b = Good (subb a b)) ->
  (forall a b, In a l -> In b l -> subb a b = true -> kltb a b = true) ->
  (forall a b c, In a l -> In b l -> In c l -> subb a b = true -> subb b c = true -> subb a c = true) ->
  exists t, build_tree sub kltb l = Good t /\ hasse_of subb kltb l t.
Proof. exact @hasse_insert. Qed.

(* ancestors (transitive closure of the child links) are exactly the sub-related pairs,
   no item is its own ancestor, every link climbs in the key order (no cycles) *)
Theorem C07_ancestors : forall (A : Type) (sub : A -> A -> res bool) (subb kltb : A -> A -> bool),
  (forall a, kltb a a = false) ->
  (forall a b c, kltb a b = true -> kltb b c = true -> kltb a c = true) ->
  forall l : list A, NoDup l -> total_on kltb l ->
  (forall a b, In a l -> In b l -> sub a b = Good (subb a b)) ->
  (forall a b, In a l -> In b l -> subb a b = true -> kltb a b = true) ->
  (forall a b c, In a l -> In b l -> In c l -> subb a b = true -> subb b c = true -> subb a c = true) ->
  forall t, build_tree sub kltb l = Good t ->
  (forall a b, ancestor t a b <-> In a l /\ In b l /\ subb a b = true) /\
  (forall a, ~ ancestor t a a) /\
  (forall a b, link t a b -> kltb a b = true).
Proof. exact @hasse_ancestors. Qed.

(* order_independent: the result (value or exception, the whole table including the order of
   every children list) is the same for every ordering of the list.  No assumption on [sub]. *)
Theorem C07_order_independent : forall (A : Type) (sub : A -> A -> res bool) (kltb : A -> A -> bool),
  (forall a, kltb a a = false) ->
  (forall a b c, kltb a b = true -> kltb b c = true -> kltb a c = true) ->
  forall l l' : list A, NoDup l -> total_on kltb l -> Permutation l l' ->
  build_tree sub kltb l = build_tree sub kltb l'.
Proof. exact @order_independent. Qed.

(* the Python code iterates over a SET of parent nodes (address-dependent order) calling
   parent.add_child(node); the model uses discovery order.  Whatever the order: the resulting table
   is the same up to the order of the new node's parents list ([core] = configuration and children
   list of every row) *)
Theorem C07_parent_set_order_irrelevant : forall (A : Type) (kltb : A -> A -> bool) ns c ps ps',
  NoDup ps -> Permutation ps ps' ->
  core (fold_left (fun acc p => add_child kltb acc p c) ps ns)
  = core (fold_left (fun acc p => add_child kltb acc p c) ps' ns).
Proof. exact @parent_set_order_irrelevant. Qed.

(** * Instances for FGConfig lists *)

(* the sort key comparison (pattern_len, len(pattern), number_of_edges, pattern_str) of the model
   is a strict total order: Python's tuple / str "<" *)
Theorem C07_key_order :
  (forall k, key_ltb k k = false) /\
  (forall x y z, key_ltb x y = true -> key_ltb y z = true -> key_ltb x z = true) /\
  (forall x y, x = y \/ key_ltb x y = true \/ key_ltb y x = true).
Proof. exact (conj key_ltb_irrefl (conj key_ltb_trans key_ltb_total)). Qed.

(* any configuration list with pairwise distinct sort keys, any mapper: every ordering of the
   list yields the same tree (or the same exception) *)
Theorem C07_configs_order_independent : forall mp (l l' : list fgconfig),
  NoDup (map order_key l) -> Permutation l l' ->
  build_config_tree_from_list mp l = build_config_tree_from_list mp l'.
Proof. exact configs_order_independent. Qed.

(* the Hasse theorem for configuration lists: whenever is_subgroup does not raise on the list,
   increases the sort key and is transitive there, the tree is the Hasse diagram *)
Theorem C07_configs_hasse : forall mp (subb : fgconfig -> fgconfig -> bool) (l : list fgconfig),
  NoDup (map order_key l) ->
  (forall a b, In a l -> In b l -> is_subgroup mp a b = Good (subb a b)) ->
  (forall a b, In a l -> In b l -> subb a b = true -> cfg_ltb a b = true) ->
  (forall a b c, In a l -> In b l -> In c l -> subb a b = true -> subb b c = true -> subb a c = true) ->
  exists t, build_config_tree_from_list mp l = Good t /\ hasse_of subb cfg_ltb l t.
Proof. exact configs_hasse. Qed.

(** * The default list (Gen/FGDefault.v, regenerated from fgutils/fgconfig.py on every run) *)

(* pairwise distinct sort keys *)
Theorem C07_default_keys_distinct : NoDup (map order_key default_configs).
Proof. exact default_keys_distinct. Qed.

(* ALL orderings of the default list give the tree [default_tree_val] *)
Theorem C07_default_all_orders : forall l',
  Permutation default_configs l' ->
  build_config_tree_from_list default_mapper l' = Good default_tree_val.
Proof. exact default_all_orders. Qed.

(* default_tree_is_hasse.  [default_ref i j]: pattern i embeds into pattern j (decided by plain
   enumeration of injective maps checked with is_embedding) and no anti-pattern of i embeds into
   pattern j.  The model's tree of the default list is the Hasse diagram of that relation: links =
   covering pairs, ancestors = related pairs, roots = minimal groups, no group its own ancestor
   (closed computation, re-checked whenever the source list changes) *)
Theorem C07_default_tree_is_hasse :
  hasse_spec default_configs (tree_view default_tree_val) default_ref.
Proof. exact default_tree_is_hasse. Qed.

(* no two default patterns embed into each other *)
Theorem C07_default_no_mutual : some_mutualb (Some "R"%string) true default_configs = false.
Proof. exact default_no_mutual. Qed.

(** * The checker run on every implementation output is sound *)
Theorem C07_checker_sound : forall cfgs v,
  C07_okb cfgs (Good v) = true ->
  some_mutualb (Some "R"%string) true cfgs = false /\
  hasse_spec cfgs v (fun i j => mget (mat_of (ref_sub (Some "R"%string) true) cfgs) i j).
Proof. exact C07_okb_sound. Qed.

(* ... for every wildcard / ignore_case setting (hierarchies built under a caller-chosen mapper) *)
Theorem C07_checker_sound_any_mapper : forall w ic cfgs v,
  C07_gen_okb w ic true cfgs (Good v) = true ->
  some_mutualb w ic cfgs = false /\
  hasse_spec cfgs v (fun i j => mget (mat_of (ref_sub w ic) cfgs) i j).
Proof. exact C07_gen_okb_sound. Qed.

(* a refusal (AssertionError) is accepted only when two patterns of the list embed into each other *)
Theorem C07_checker_refusal : forall w ic full cfgs e,
  C07_gen_okb w ic full cfgs (Bad e) = true -> some_mutualb w ic cfgs = true.
Proof. exact C07_gen_okb_refusal. Qed.

(* the reference decision "P embeds somewhere into G" used by the checker and by [default_ref] is
   exact with respect to is_embedding (whose equivalence with Embedding is the matcher team's
   C04_is_embedding_sound / EmbeddingFacts.is_embedding_complete) *)
Theorem C07_reference_exact : forall w ic G P,
  NoDup (nodes P) ->
  (embeds_anyb w ic G P = true <-> exists a pa m, is_embedding w ic G a P pa m = true).
Proof. exact embeds_anyb_exact. Qed.

(* ... and therefore, under the exactness of is_embedding (premises IsEmbSound / IsEmbComplete =
   the matcher team's EmbeddingFacts.is_embedding_sound / is_embedding_complete), the relation
   [ref_sub] against which C07_okb and C07_default_tree_is_hasse compare the tree is: a's pattern
   embeds into b's pattern (Spec.Embedding.Embedding for some anchor pair) and no anti-pattern of a does *)
Theorem C07_reference_is_embedding_order : IsEmbSound -> IsEmbComplete ->
  forall w ic (a b : fgconfig),
  wf (fg_pattern a) -> (forall ap, In ap (fg_anti a) -> wf ap) ->
  (ref_sub w ic a b = true <->
   Embeds w ic (fg_pattern a) (fg_pattern b) /\
   forall ap, In ap (fg_anti a) -> ~ Embeds w ic ap (fg_pattern b)).
Proof. exact ref_sub_exact. Qed.

(** * Concrete part: is_subgroup is the strict embedding order *)

(* embed_transitive: symbol admission is transitive (the wildcard is recognised on the pattern side
   only), embeddings compose, hence "embeds into" is transitive and "embeds into but not back" is a
   strict partial order on graphs -- for every wildcard / ignore_case setting *)
Theorem C07_adm_transitive : forall w ic p s t,
  adm w ic p s = true -> adm w ic s t = true -> adm w ic p t = true.
Proof. exact adm_trans. Qed.

Theorem C07_embed_transitive : forall w ic P G H,
  Embeds w ic P G -> Embeds w ic G H -> Embeds w ic P H.
Proof. exact embeds_trans. Qed.

Theorem C07_strict_order : forall w ic,
  (forall P, ~ StrictlyBelow w ic P P) /\
  (forall P G H, StrictlyBelow w ic P G -> StrictlyBelow w ic G H -> StrictlyBelow w ic P H).
Proof. exact (fun w ic => conj (strictly_below_irrefl w ic) (strictly_below_trans w ic)). Qed.

(* what is_subgroup decides.  Premises: the two matcher facts (Props/C03.v C03, Props/C04.v
   C04_sound).  For configurations whose pattern / anti-patterns are non-empty, well-formed,
   connected, symbol-carrying graphs with node ids 0..n-1 (cfg_parsed: what the parser returns):
   whenever is_subgroup(parent=a, child=b) returns (it raises AssertionError when the two patterns
   embed into each other) it returns True exactly when a's pattern embeds into b's, b's does not
   embed into a's, and no anti-pattern of a embeds into b's pattern *)
Theorem C07_is_subgroup_sem : forall w ic,
  MatcherComplete w ic -> MatcherSound w ic ->
  forall a b t, cfg_parsed a -> cfg_parsed b ->
  is_subgroup (mk_mapper w ic []) a b = Good t ->
  (t = true <-> StrictlyBelow w ic (fg_pattern a) (fg_pattern b) /\ ~ vetoed w ic a b).
Proof. exact is_subgroup_sem. Qed.

(* key_strict: for the wildcard "R" (either case setting), patterns that are well-formed graphs,
   default len_exclude_nodes = ["R"], and no node carrying the lower-case symbol "r" in the smaller
   pattern: if a's pattern embeds into b's and b's does not embed into a's, then
   order_id a < order_id b.  (An embedding is injective on nodes and bonds and sends non-wildcard
   nodes to non-wildcard nodes, so (pattern_len, nodes, edges) is <= componentwise; if all three
   agree the inverse map is an embedding too -- Proofs/KeyStrict.v, Proofs/GraphCount.v.) *)
Theorem C07_key_strict : forall ic (a b : fgconfig),
  wf (fg_pattern a) -> wf (fg_pattern b) ->
  fg_len_excl a = ["R"%string] -> fg_len_excl b = ["R"%string] ->
  (forall n, sym_of (fg_pattern a) n <> Some "r"%string) ->
  StrictlyBelow (Some "R"%string) ic (fg_pattern a) (fg_pattern b) ->
  cfg_ltb a b = true.
Proof. exact strictly_below_increases_key. Qed.

(* the same with [key_strict_on] kept as a premise, for any wildcard *)
Theorem C07_concrete_from_key_strict : forall w ic,
  MatcherComplete w ic -> MatcherSound w ic ->
  forall l : list fgconfig,
  NoDup (map order_key l) ->
  (forall c, In c l -> cfg_parsed c /\ fg_anti c = []) ->
  (forall a b, In a l -> In b l -> exists t, is_subgroup (mk_mapper w ic []) a b = Good t) ->
  key_strict_on w ic l ->
  (forall a b, In a l -> In b l ->
     (subb_of w ic a b = true <-> StrictlyBelow w ic (fg_pattern a) (fg_pattern b))) /\
  exists t, build_config_tree_from_list (mk_mapper w ic []) l = Good t /\ hasse_of (subb_of w ic) cfg_ltb l t.
Proof. exact configs_hasse_embedding. Qed.

(* C07_concrete: anti-pattern-free configurations as the parser produces them (cfg_plain: non-empty,
   well-formed, connected, every node has a symbol, ids 0..n-1, default len_exclude_nodes, no "r"),
   pairwise distinct sort keys, wildcard "R" (either case setting); premises: the two matcher facts
   and "is_subgroup does not raise on the list" (it raises AssertionError exactly when two patterns
   embed into each other).  Then the value of is_subgroup is the strict embedding order and the tree
   built by the model is its Hasse diagram: b is a child of a iff a's pattern is strictly below b's
   with nothing of the list strictly between, roots = minimal groups (hasse_of); by C07_ancestors the
   ancestors are exactly the strictly-below pairs and no group is its own ancestor *)
Theorem C07_concrete : forall ic,
  MatcherComplete (Some "R"%string) ic -> MatcherSound (Some "R"%string) ic ->
  forall l : list fgconfig,
  NoDup (map order_key l) ->
  (forall c, In c l -> cfg_plain ic c) ->
  (forall a b, In a l -> In b l -> exists t, is_subgroup (mk_mapper (Some "R"%string) ic []) a b = Good t) ->
  (forall a b, In a l -> In b l ->
     (subb_of (Some "R"%string) ic a b = true <-> StrictlyBelow (Some "R"%string) ic (fg_pattern a) (fg_pattern b))) /\
  exists t, build_config_tree_from_list (mk_mapper (Some "R"%string) ic []) l = Good t /\
            hasse_of (subb_of (Some "R"%string) ic) cfg_ltb l t.
Proof. exact configs_hasse_concrete. Qed.

(** * Premise-free forms (Proofs/QueryClosed.v discharges MatcherComplete / MatcherSound / IsEmbSound /
      IsEmbComplete from the theorems of the matcher's owners) *)
Theorem C07_is_subgroup_sem_closed : forall w ic a b t,
  cfg_parsed a -> cfg_parsed b ->
  is_subgroup (mk_mapper w ic []) a b = Good t ->
  (t = true <-> StrictlyBelow w ic (fg_pattern a) (fg_pattern b) /\ ~ vetoed w ic a b).
Proof. exact is_subgroup_sem_closed. Qed.

Theorem C07_concrete_closed : forall ic (l : list fgconfig),
  NoDup (map order_key l) ->
  (forall c, In c l -> cfg_plain ic c) ->
  (forall a b, In a l -> In b l -> exists t, is_subgroup (mk_mapper (Some "R"%string) ic []) a b = Good t) ->
  (forall a b, In a l -> In b l ->
     (subb_of (Some "R"%string) ic a b = true <-> StrictlyBelow (Some "R"%string) ic (fg_pattern a) (fg_pattern b))) /\
  exists t, build_config_tree_from_list (mk_mapper (Some "R"%string) ic []) l = Good t /\
            hasse_of (subb_of (Some "R"%string) ic) cfg_ltb l t.
Proof. exact configs_hasse_concrete_closed. Qed.

Theorem C07_reference_is_embedding_order_closed : forall w ic (a b : fgconfig),
  wf (fg_pattern a) -> (forall ap, In ap (fg_anti a) -> wf ap) ->
  (ref_sub w ic a b = true <->
   Embeds w ic (fg_pattern a) (fg_pattern b) /\
   forall ap, In ap (fg_anti a) -> ~ Embeds w ic ap (fg_pattern b)).
Proof. exact ref_sub_exact_closed. Qed.

(** * Non-vacuity: the three-pattern list of test_insert_child_between, given out of order *)
Open Scope string_scope.
Open Scope Z_scope.
Definition ex_RC : graph :=
  [(0, (na_sym "R", [(1, Scalar 2)])); (1, (na_sym "C", [(0, Scalar 2)]))].
Definition ex_RCR : graph :=
  [(0, (na_sym "R", [(1, Scalar 2)])); (1, (na_sym "C", [(0, Scalar 2); (2, Scalar 2)]));
   (2, (na_sym "R", [(1, Scalar 2)]))].
Definition ex_RCOH : graph :=
  [(0, (na_sym "R", [(1, Scalar 2)])); (1, (na_sym "C", [(0, Scalar 2); (2, Scalar 2)]));
   (2, (na_sym "O", [(1, Scalar 2); (3, Scalar 2)])); (3, (na_sym "H", [(2, Scalar 2)]))].
Definition ex_list : list fgconfig :=
  [ fgconfig_init "1" "RC" ex_RC None [] None ["R"];
    fgconfig_init "3" "RCOH" ex_RCOH None [] None ["R"];
    fgconfig_init "2" "RCR" ex_RCR None [] None ["R"] ].

Example C07_example :
  res_map tree_view (build_config_tree_from_list default_mapper ex_list)
  = Good (["1"], [("1", (["2"], [])); ("2", (["3"], ["1"])); ("3", ([], ["2"]))])
  /\ C07_okb ex_list (res_map tree_view (build_config_tree_from_list default_mapper ex_list)) = true
  /\ keys_distinctb (map order_key ex_list) = true.
Proof. repeat split; vm_compute; reflexivity. Qed.

(* the pattern graphs of Gen/FGDefault.v (produced by the real parser inside the translator) are exactly what the
   Coq model of the parser returns on the pattern strings, so the default-list theorems above speak about the
   strings in fgconfig.py read through the parser model that C01 ties to fgutils.parse *)
Theorem C07_default_graphs_parsed : default_graphs_parsedb = true.
Proof. exact default_graphs_parsed. Qed.

(** * Totality: is_subgroup on parsed configurations, and the concrete tree theorem without the
      "does not raise" premise (Proofs/MatchTotal.v: the matcher returns Ok on well-formed symbol-carrying
      graphs; Proofs/ConcreteHasseTotal.v) *)

(* every mapper: on parsed configurations is_subgroup returns a Boolean or raises the "matches in both
   directions" AssertionError -- no KeyError / IndexError, no out-of-fuel value *)
Theorem C07_is_subgroup_errors : forall mp a b,
  cfg_parsed a -> cfg_parsed b -> (forall ap, In ap (fg_anti a) -> has_syms ap) ->
  (exists t, is_subgroup mp a b = Good t) \/ is_subgroup mp a b = Bad AssertErr.
Proof. exact is_subgroup_good_or_assert. Qed.

(* ... and it raises it exactly when the two patterns embed into each other *)
Theorem C07_is_subgroup_assert_iff : forall w ic a b,
  cfg_parsed a -> cfg_parsed b -> (forall ap, In ap (fg_anti a) -> has_syms ap) ->
  (is_subgroup (mk_mapper w ic []) a b = Bad AssertErr <->
   Embeds w ic (fg_pattern a) (fg_pattern b) /\ Embeds w ic (fg_pattern b) (fg_pattern a)).
Proof. exact is_subgroup_assert_iff. Qed.

(* in particular is_subgroup(a, a) always raises: the premise "is_subgroup returns on ALL pairs of the
   list" of C07_concrete / C07_concrete_closed cannot hold for a non-empty list *)
Theorem C07_is_subgroup_self : forall w ic a,
  cfg_parsed a -> (forall ap, In ap (fg_anti a) -> has_syms ap) ->
  is_subgroup (mk_mapper w ic []) a a = Bad AssertErr.
Proof. exact is_subgroup_self. Qed.

(* C07_concrete_closed without the "does not raise" premise.  Remaining premise besides distinct keys and
   parsed, anti-pattern-free configurations: [no_mutual], no two DISTINCT members embed into each other
   (not implied by the others: "CO" and "OC" have distinct keys and embed into each other; then
   is_subgroup raises the AssertionError by C07_is_subgroup_assert_iff).  Conclusions: is_subgroup
   returns on every pair of distinct members; its value is the strict embedding order; the model builds
   the tree, and it is the Hasse diagram of that order. *)
Theorem C07_concrete_total : forall ic (l : list fgconfig),
  NoDup (map order_key l) ->
  (forall c, In c l -> cfg_plain ic c) ->
  no_mutual (Some "R"%string) ic l ->
  (forall a b, In a l -> In b l -> a <> b ->
     exists t, is_subgroup (mk_mapper (Some "R"%string) ic []) a b = Good t) /\
  (forall a b, In a l -> In b l ->
     (subb_of (Some "R"%string) ic a b = true <-> StrictlyBelow (Some "R"%string) ic (fg_pattern a) (fg_pattern b))) /\
  exists t, build_config_tree_from_list (mk_mapper (Some "R"%string) ic []) l = Good t /\
            hasse_of (subb_of (Some "R"%string) ic) cfg_ltb l t.
Proof. exact configs_hasse_concrete_total. Qed.

(* the three hypotheses are decidable for a concrete list ... *)
Theorem C07_concrete_total_hyps : forall ic l,
  concrete_total_hypsb ic l = true ->
  NoDup (map order_key l) /\ (forall c, In c l -> cfg_plain ic c) /\ no_mutual (Some "R"%string) ic l.
Proof. exact concrete_total_hyps_sound. Qed.

(* ... and hold for the example list (non-vacuity of C07_concrete_total) *)
Example C07_concrete_total_example : concrete_total_hypsb true ex_list = true.
Proof. vm_compute. reflexivity. Qed.

Print Assumptions C07_hasse_insert.
Print Assumptions C07_ancestors.
Print Assumptions C07_order_independent.
Print Assumptions C07_parent_set_order_irrelevant.
Print Assumptions C07_key_order.
Print Assumptions C07_configs_order_independent.
Print Assumptions C07_configs_hasse.
Print Assumptions C07_default_keys_distinct.
Print Assumptions C07_default_all_orders.
Print Assumptions C07_default_tree_is_hasse.
Print Assumptions C07_default_no_mutual.
Print Assumptions C07_checker_sound.
Print Assumptions C07_reference_exact.
Print Assumptions C07_reference_is_embedding_order.
Print Assumptions C07_adm_transitive.
Print Assumptions C07_embed_transitive.
Print Assumptions C07_strict_order.
Print Assumptions C07_is_subgroup_sem.
Print Assumptions C07_key_strict.
Print Assumptions C07_concrete_from_key_strict.
Print Assumptions C07_concrete.
Print Assumptions C07_is_subgroup_sem_closed.
Print Assumptions C07_concrete_closed.
Print Assumptions C07_reference_is_embedding_order_closed.
Print Assumptions C07_default_graphs_parsed.
Print Assumptions C07_is_subgroup_errors.
Print Assumptions C07_is_subgroup_assert_iff.
Print Assumptions C07_is_subgroup_self.
Print Assumptions C07_concrete_total.
Print Assumptions C07_concrete_total_hyps.
Print Assumptions C07_checker_sound_any_mapper.
Print Assumptions C07_checker_refusal.
