(** C20 — atom-map completion yields a complete injective map and keeps existing numbers.
    This file holds only the property theorems; proofs live in Proofs/AamProofs.v. *)
From Coq Require Import ZArith List.
Import ListNotations.
From FGV Require Import Base.Util Base.Bond Base.NX Model.Aam Spec.AamSpec Spec.AamCheck Proofs.AamProofs Proofs.AamMore.

(* complete_aam always terminates normally (the while loop's fuel is sufficient) and its
   result: same nodes/adjacency/other attributes, old numbers kept, every node mapped, and
   the i-th new number is the least integer >= start that is neither an old number nor one
   of the i earlier new numbers (start = 1 | offset | least old number). *)
Theorem C20_complete_aam : forall g off,
  exists g', complete_aam g off = Some g' /\ complete_spec g off g'.
Proof. exact complete_aam_spec. Qed.

(* new numbers are pairwise distinct and distinct from every old number *)
Theorem C20_injective : forall g off g',
  complete_aam g off = Some g' ->
  NoDup (new_numbers g g') /\ (forall k, In k (new_numbers g g') -> ~ In k (existing_maps g)).
Proof. exact complete_aam_injective. Qed.

(* initialize_aam refuses iff some node is mapped, otherwise assigns id + offset *)
Theorem C20_initialize_aam : forall g off,
  match initialize_aam g off with
  | None => exists n a ad k, In (n, (a, ad)) g /\ a_aam a = Some k
  | Some g' =>
      (forall n a ad, In (n, (a, ad)) g -> a_aam a = None) /\
      g' = map (fun '(n, (a, ad)) => (n, (set_aam a (n + off)%Z, ad))) g
  end.
Proof. exact initialize_aam_spec. Qed.

(* the decidable checker the harness runs on every implementation output is sound *)
Theorem C20_checker_sound : forall g off g',
  complete_okb g off (Some g') = true -> complete_spec g off g'.
Proof. exact complete_okb_sound. Qed.

(* idempotence: a completed graph is a fixed point of completion, whatever offset is passed next *)
Theorem C20_idempotent : forall g off off' g',
  complete_aam g off = Some g' -> complete_aam g' off' = Some g'.
Proof. exact complete_aam_idempotent. Qed.

(* "complete injective map": pairwise distinct old numbers give pairwise distinct numbers on ALL
   nodes of the result (old and new together), one number per node, no node added or dropped *)
Theorem C20_total_injective : forall g off g',
  NoDup (existing_maps g) -> complete_aam g off = Some g' ->
  NoDup (existing_maps g') /\ List.length (existing_maps g') = List.length g' /\
  List.length g' = List.length g.
Proof. exact complete_aam_total_injective. Qed.

(* a number occurring twice in the result already occurred twice in the input *)
Theorem C20_dup_only_old : forall g off g' k,
  complete_aam g off = Some g' ->
  (1 < count_occ Z.eq_dec (existing_maps g') k)%nat -> (1 < count_occ Z.eq_dec (existing_maps g) k)%nat.
Proof. exact complete_aam_dup_only_old. Qed.

(* the declarative specification admits exactly one result graph ... *)
Theorem C20_spec_unique : forall g off g1 g2,
  complete_spec g off g1 -> complete_spec g off g2 -> g1 = g2.
Proof. exact complete_spec_unique. Qed.

(* ... so an implementation output accepted by the checker IS the model's output *)
Theorem C20_checker_exact : forall g off g',
  complete_okb g off (Some g') = true -> complete_aam g off = Some g'.
Proof. exact complete_okb_exact. Qed.

(* non-vacuity: a concrete graph with a partial map *)
Example C20_example :
  let g := [(5, (mkNA None (Some 3) None None None, [])); (2, (na_empty, [])); (9, (na_empty, []))]%Z in
  option_map (fun g' => map (fun e => a_aam (fst (snd e))) g') (complete_aam g OffMin)
  = Some [Some 3; Some 4; Some 5]%Z.
Proof. vm_compute. reflexivity. Qed.

Print Assumptions C20_complete_aam.
Print Assumptions C20_injective.
Print Assumptions C20_initialize_aam.
Print Assumptions C20_checker_sound.
Print Assumptions C20_idempotent.
Print Assumptions C20_total_injective.
Print Assumptions C20_dup_only_old.
Print Assumptions C20_spec_unique.
Print Assumptions C20_checker_exact.
