(** C09 -- the ITS graph superimposes reactant and product bond-for-bond.
    This file holds only the property theorems; proofs live in Proofs/ItsProofs.v.
    [mapped g n k]: node n of g carries "aam" = k >= 0.  [aam_injective g]: no two nodes of g
    share such a number.  Orders are in half units; [combine_orders a b] is [None] when both
    sides lack the bond and [Some (Pair (order a) (order b))] otherwise, 0 for "not bonded". *)
From Coq Require Import ZArith List String.
Import ListNotations.
From FGV Require Import Base.Util Base.Bond Base.NX Base.NXFacts Model.Aam Model.Its.
From FGV Require Import Spec.ItsSpec Spec.ItsCheck Proofs.ItsProofs.
Open Scope Z_scope.

(* k is an ITS node iff some G-node n and some H-node m carry map number k >= 0; its attributes
   are then G's symbol, aam = k, idx_map = (n, m). Atoms mapped on one side only give no node. *)
Theorem C09_nodes : forall G H,
  wf G -> wf H -> aam_injective G -> aam_injective H ->
  forall k a, node_attr (get_its G H) k = Some a <->
    exists n m, mapped G n k /\ mapped H m k /\ a = its_node_attr (sym_of G n) k (n, m).
Proof. exact get_its_nodes_spec. Qed.

(* {k, l} is an ITS edge labelled lb iff k, l > 0 are carried on both sides and lb is
   (order in G, order in H) of the bond between the mapped atoms, at least one side bonding them.
   As the code behaves: map number 0 gives a node but never an edge (its n_ITS > 0 test).
   Being an iff, this also says: no edge touches a non-ITS node, and there is nothing else. *)
Theorem C09_edges : forall G H,
  wf G -> wf H -> aam_injective G -> aam_injective H ->
  forall k l lb, edge_label (get_its G H) k l = Some lb <->
    exists n1 n2 m1 m2,
      mapped G n1 k /\ mapped G n2 l /\ mapped H m1 k /\ mapped H m2 l /\ 0 < k /\ 0 < l /\
      combine_orders (edge_label G n1 n2) (edge_label H m1 m2) = Some lb.
Proof. exact get_its_edges_spec. Qed.

(* functional reading of the edge clause, for every pair of positive map numbers present on
   both sides (also k = l) *)
Theorem C09_edge_label : forall G H k l n1 n2 m1 m2,
  wf G -> wf H -> aam_injective G -> aam_injective H ->
  mapped G n1 k -> mapped G n2 l -> mapped H m1 k -> mapped H m2 l -> 0 < k -> 0 < l ->
  edge_label (get_its G H) k l = combine_orders (edge_label G n1 n2) (edge_label H m1 m2).
Proof. exact get_its_edge_label. Qed.

Theorem C09_edge_scalar : forall G H k l n1 n2 m1 m2 a b,
  wf G -> wf H -> aam_injective G -> aam_injective H ->
  mapped G n1 k -> mapped G n2 l -> mapped H m1 k -> mapped H m2 l -> 0 < k -> 0 < l ->
  edge_label G n1 n2 = Some (Scalar a) -> edge_label H m1 m2 = Some (Scalar b) ->
  edge_label (get_its G H) k l = Some (Pair a b).
Proof. exact get_its_edge_scalar. Qed.

Theorem C09_no_stray_edges : forall G H k l lb,
  wf G -> wf H -> aam_injective G -> aam_injective H ->
  edge_label (get_its G H) k l = Some lb ->
  0 < k /\ 0 < l /\ has_node (get_its G H) k = true /\ has_node (get_its G H) l = true.
Proof. exact get_its_edge_nodes. Qed.

Theorem C09_wf : forall G H,
  wf G -> wf H -> aam_injective G -> aam_injective H -> wf (get_its G H).
Proof. exact get_its_wf. Qed.

(* node ids, node insertion order and adjacency order of the inputs do not matter: if G' is G
   and H' is H with ids renamed by arbitrary injections and stored in any order, the two ITS
   graphs have the same node -> (symbol, aam) map and the same edge -> label map; only idx_map,
   which records the input ids, differs. *)
Theorem C09_invariant : forall f f' G G' H H',
  wf G -> wf H -> wf G' -> wf H' -> aam_injective G -> aam_injective H ->
  renaming f G G' -> renaming f' H H' ->
  equiv_mod_idx (get_its G H) (get_its G' H').
Proof. exact get_its_invariant. Qed.

(* ITS.from_smiles: ITS.__init__ (complete_aam "min") leaves a get_its result as it is *)
Theorem C09_from_graphs : forall G H,
  wf G -> wf H -> aam_injective G -> aam_injective H -> ITS_from_graphs G H = Some (get_its G H).
Proof. exact ITS_from_graphs_eq. Qed.

(* the decidable checker run on every implementation output is sound *)
Theorem C09_checker_sound : forall G H out,
  wf G -> wf H -> aam_injectiveb G = true -> aam_injectiveb H = true ->
  its_checkb G H out = true -> its_spec G H out.
Proof. exact its_checkb_sound. Qed.

(* the harness also runs the implementation on a second renaming/reordering of each reaction
   and compares the two outputs with this checker (check "invariant") *)
Theorem C09_invariant_checker_sound : forall x y,
  wf x -> wf y -> equiv_mod_idxb x y = true -> equiv_mod_idx x y.
Proof. exact equiv_mod_idxb_sound. Qed.

(* non-vacuity: different ids and orders on the two sides, a changed, a broken and a formed
   bond, an atom mapped on one side only (9 / 4) and an unmapped atom *)
Open Scope string_scope.
Definition exG : graph :=
  [(10, (mkNA (Some "C") (Some 2) None None None, [(11, Scalar 4); (12, Scalar 2)]));
   (11, (mkNA (Some "O") (Some 1) None None None, [(10, Scalar 4)]));
   (12, (mkNA (Some "N") (Some 3) None None None, [(10, Scalar 2); (13, Scalar 2)]));
   (13, (mkNA (Some "C") (Some 9) None None None, [(12, Scalar 2)]))].
Definition exH : graph :=
  [(7, (mkNA (Some "N") (Some 3) None None None, [(5, Scalar 2)]));
   (5, (mkNA (Some "O") (Some 1) None None None, [(6, Scalar 2); (7, Scalar 2)]));
   (6, (mkNA (Some "C") (Some 2) None None None, [(5, Scalar 2)]));
   (8, (mkNA (Some "H") None None None None, []))].

Example C09_example_hyps :
  wf exG /\ wf exH /\ aam_injective exG /\ aam_injective exH.
Proof.
  assert (WG : wf exG) by (apply wfb_wf; vm_compute; reflexivity).
  assert (WH : wf exH) by (apply wfb_wf; vm_compute; reflexivity).
  split; [exact WG|]. split; [exact WH|].
  split; apply aam_injectiveb_sound; try (vm_compute; reflexivity); [apply WG|apply WH].
Qed.

Example C09_example :
  nodes (get_its exG exH) = [2; 1; 3]
  /\ node_attr (get_its exG exH) 2 = Some (mkNA (Some "C") (Some 2) None None (Some (10, 6)))
  /\ edge_label (get_its exG exH) 2 1 = Some (Pair 4 2)
  /\ edge_label (get_its exG exH) 2 3 = Some (Pair 2 0)
  /\ edge_label (get_its exG exH) 1 3 = Some (Pair 0 2)
  /\ its_checkb exG exH (get_its exG exH) = true.
Proof. vm_compute. repeat split; reflexivity. Qed.

(* the hypotheses of C09_invariant are satisfiable by a genuine renaming + reordering:
   exG' is exG with ids renamed by n |-> 40 - n, nodes and adjacency lists stored in another order *)
Definition exG' : graph :=
  [(27, (mkNA (Some "C") (Some 9) None None None, [(28, Scalar 2)]));
   (29, (mkNA (Some "O") (Some 1) None None None, [(30, Scalar 4)]));
   (30, (mkNA (Some "C") (Some 2) None None None, [(28, Scalar 2); (29, Scalar 4)]));
   (28, (mkNA (Some "N") (Some 3) None None None, [(27, Scalar 2); (30, Scalar 2)]))].

Example C09_invariant_example :
  wf exG' /\ renaming (fun n => 40 - n) exG exG' /\ renaming (fun n => n) exH exH
  /\ equiv_mod_idxb (get_its exG exH) (get_its exG' exH) = true
  /\ node_attr (get_its exG' exH) 2 = Some (mkNA (Some "C") (Some 2) None None (Some (30, 6))).
Proof.
  split; [apply wfb_wf; vm_compute; reflexivity|].
  split; [apply renamingb_sound; vm_compute; reflexivity|].
  split; [apply renamingb_sound; vm_compute; reflexivity|].
  vm_compute. split; reflexivity.
Qed.

Print Assumptions C09_nodes.
Print Assumptions C09_edges.
Print Assumptions C09_edge_label.
Print Assumptions C09_edge_scalar.
Print Assumptions C09_no_stray_edges.
Print Assumptions C09_wf.
Print Assumptions C09_invariant.
Print Assumptions C09_from_graphs.
Print Assumptions C09_checker_sound.
Print Assumptions C09_invariant_checker_sound.
Print Assumptions C09_example_hyps.
Print Assumptions C09_example.
Print Assumptions C09_invariant_example.
