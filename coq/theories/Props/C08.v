(** C08 — the permutation mapper returns each admissible assignment exactly once.
    This file holds only the property theorems; proofs live in Proofs/{PermsFacts,GenFacts,
    PermuteProofs,PermuteCheckProofs,MapMatrixProofs}.v. Vocabulary: Spec/PermuteSpec.v.

    Reading guide. [permute mp p s] models PermutationMapper(w, ic, cmtn).permute(p, s) with
    mp = mk_mapper w ic cmtn. A result is [enumerate ts] = [(0,t0); (1,t1); ...]: pattern position i
    goes to structure position ti, or to nothing when ti = -1. With W, CM, P, S the wildcard,
    can_map_to_nothing, pattern and structure after the optional lower-casing,
    [admissible W CM P S ts] says: every ti is -1 or a valid structure position whose symbol equals
    P_i (any position when P_i is the wildcard W); the real targets are pairwise distinct; for every
    symbol c other than the wildcard exactly (shortage c = max 0 (#c in P - #c in S) if c is listed in CM,
    else 0) positions holding c go to nothing; wildcard positions go to nothing at most
    [wild_room] times (0 if the wildcard is not listed), which is exactly the remaining lack
    max 0 (|P| - |S| - sum of the shortages) in the normal case that the wildcard is processed
    last (C08_wildcard_exact). *)
From Coq Require Import ZArith List Bool String Permutation.
Import ListNotations.
From FGV Require Import Base.Util Base.Sym Model.Permute Model.MapMatrix Spec.PermuteSpec Spec.PermuteCheck
     Proofs.PermsFacts Proofs.GenFacts Proofs.PermuteProofs Proofs.PermuteCheckProofs Proofs.PermuteExact
     Proofs.MapMatrixProofs.
From FGV Require Import Base.Bond Base.NX Model.Match Model.MapSubgraph2 Spec.Embedding Spec.MinMappingSpec
     Proofs.MinMappingProofs Proofs.MapSubgraph2Proofs.
Open Scope string_scope.
Open Scope Z_scope.

(** * the mapper *)

(* every returned assignment is admissible *)
Theorem C08_sound : forall mp p s a, In a (permute mp p s) -> permute_spec mp p s a.
Proof. exact C08_sound_proof. Qed.

(* every admissible assignment is returned *)
Theorem C08_complete : forall mp p s a, permute_spec mp p s a -> In a (permute mp p s).
Proof. exact C08_complete_proof. Qed.

(* no assignment is returned twice *)
Theorem C08_nodup : forall mp p s, NoDup (permute mp p s).
Proof. exact permute_NoDup. Qed.

(* an empty pattern has no assignment at all (len(pattern) > 0 is required by the code) *)
Theorem C08_empty_pattern : forall mp s, permute mp [] s = [].
Proof. exact permute_nil. Qed.

(* "nothing" is used only for symbols allowed to map to nothing *)
Theorem C08_nothing_only_if_allowed : forall mp p s a i,
  In a (permute mp p s) -> In (i, -1) a ->
  exists q, nth_error (map (lw (m_ignore_case mp)) p) (Z.to_nat i) = Some q /\
            In q (map (lw (m_ignore_case mp)) (m_cmtn mp)).
Proof. exact permute_nothing_cmtn. Qed.

(* a structure-side wildcard never matches a concrete pattern symbol *)
Theorem C08_structure_wildcard : forall mp p s a i j w,
  In a (permute mp p s) -> In (i, j) a -> 0 <= j ->
  option_map (lw (m_ignore_case mp)) (m_wildcard mp) = Some w ->
  nth_error (map (lw (m_ignore_case mp)) s) (Z.to_nat j) = Some w ->
  nth_error (map (lw (m_ignore_case mp)) p) (Z.to_nat i) = Some w.
Proof. exact permute_struct_wildcard. Qed.

(* 'nothing' is used only as often as the structure lacks counterparts. For symbols other than the
   wildcard this is part of [admissible] (exactly [shortage c] times). For the wildcard it is exact
   whenever the wildcard is processed last among can_map_to_nothing ... *)
Theorem C08_wildcard_exact : forall mp p s ts w,
  In (enumerate ts) (permute mp p s) ->
  option_map (lw (m_ignore_case mp)) (m_wildcard mp) = Some w ->
  wild_last w (map (lw (m_ignore_case mp)) (m_cmtn mp)) ->
  nothing_count w (map (lw (m_ignore_case mp)) p) ts =
  if in_dec string_dec w (map (lw (m_ignore_case mp)) (m_cmtn mp))
  then wild_room w (map (lw (m_ignore_case mp)) (m_cmtn mp)) (map (lw (m_ignore_case mp)) p) (map (lw (m_ignore_case mp)) s)
  else 0.
Proof. exact permute_wild_exact. Qed.

(* ... which the constructor's sort guarantees as long as the listed symbols that are substrings of the
   wildcard are exactly those equal to it after the optional lower-casing (e.g. a one-letter wildcard
   listed in the same case, no empty symbol). Otherwise see C08_example_wildcard_first. *)
Theorem C08_wildcard_last_by_constructor : forall w ic cmtn,
  wild_last (lw ic w) (map (lw ic) (m_cmtn (mk_mapper (Some w) ic cmtn))).
Proof. exact mk_mapper_wild_last. Qed.

(** * stepping stones exported to other properties *)

Theorem C08_perms : forall (l l' : list (Z * string)), In l' (perms l) <-> Permutation l l'.
Proof. exact (@perms_In (Z * string)). Qed.

Theorem C08_perms_nodup : forall (l : list (Z * string)), NoDup l -> NoDup (perms l).
Proof. exact (@perms_NoDup (Z * string)). Qed.

(* generate_mapping_permutations = the injective symbol-respecting position maps *)
Theorem C08_gen_sound : forall p s w m, In m (generate_mapping_permutations p s w) -> gen_spec p s w m.
Proof. exact gen_sound. Qed.

Theorem C08_gen_complete : forall p s w m, gen_spec p s w m -> In m (generate_mapping_permutations p s w).
Proof. exact gen_complete. Qed.

(* permute without can_map_to_nothing *)
Theorem C08_permute_sound : forall mp p s a, m_cmtn mp = [] ->
  In a (permute mp p s) ->
  gen_spec (map (lw (m_ignore_case mp)) p) (map (lw (m_ignore_case mp)) s)
           (option_map (lw (m_ignore_case mp)) (m_wildcard mp)) a.
Proof. exact permute_sound. Qed.

Theorem C08_permute_complete : forall mp p s a, m_cmtn mp = [] ->
  gen_spec (map (lw (m_ignore_case mp)) p) (map (lw (m_ignore_case mp)) s)
           (option_map (lw (m_ignore_case mp)) (m_wildcard mp)) a ->
  In a (permute mp p s).
Proof. exact permute_complete. Qed.

(** * single symbols and the symbol-compatibility matrix *)

Theorem C08_single : forall mp ps ss,
  let ic := m_ignore_case mp in
  let W := option_map (lw ic) (m_wildcard mp) in
  let CM := map (lw ic) (m_cmtn mp) in
  permute mp [ps] [ss] =
  if sym_eqb_opt W (lw ic ps) || String.eqb (lw ic ps) (lw ic ss) then [[(0, 0)]]
  else if sym_mem (lw ic ps) CM then [[(0, -1)]] else [].
Proof. exact permute_single. Qed.

(* the constructor's assertions never fire, and is_mapping answers exactly what permute answers
   for the two single symbols, whatever their length *)
Theorem C08_matrix : forall mp psyms ssyms,
  exists m, mm_init mp psyms ssyms = Some m /\
    forall ps ss, In ps psyms -> In ss ssyms ->
      is_mapping m ps ss = Some (negb (is_nil (permute mp [ps] [ss]))).
Proof. exact matrix_spec. Qed.

(** * the decidable checkers the harness runs on implementation outputs are sound *)

Theorem C08_checker_sound : forall mp p s out,
  permute_okb mp p s out = true ->
  (forall a, In a out <-> permute_spec mp p s a) /\ NoDup out.
Proof. exact permute_okb_sound. Qed.

(* the cheaper variant used on inputs whose candidate space is too large to enumerate *)
Theorem C08_checker_sound_partial : forall mp p s out,
  permute_sound_okb mp p s out = true ->
  (forall a, In a out -> permute_spec mp p s a) /\ NoDup out.
Proof. exact permute_sound_okb_sound. Qed.

Theorem C08_matrix_checker : forall mp psyms ssyms syms m,
  mm_init mp psyms ssyms = Some m ->
  matrix_table m syms = matrix_spec_table mp psyms ssyms syms.
Proof. exact matrix_table_spec. Qed.

(** * MappingMatrix.min_mapping_symbol and map_subgraph2 (extension)

    The rows of the matrix are numbered by enumerating a Python set of the registered symbols, so the
    numbering depends on the string hashes (PYTHONHASHSEED).  [ord] is that numbering; the theorems hold
    for every numbering ([set_order ord syms]: a duplicate-free listing of the registered symbols).
    [anchor_count m ps ss (p, s)] is the entry m_cnt[p, s] of the code written without matrices:
    (number of structure symbols, with multiplicity, that p can be mapped to) x (number of pattern
    symbols, with multiplicity, that can be mapped to s) if p can be mapped to s, else 0. *)

(* ValueError iff the pattern list is longer; else KeyError iff a queried symbol is not registered; else
   None iff every count is 0, and a reported pair is a valid cell of the matrix whose count is positive
   and least among the positive counts *)
Theorem C08_min_mapping_spec : forall ord m ps ss,
  set_order ord (mm_syms m) -> mm_wf m ->
  min_mapping_spec m ps ss (min_mapping_symbol ord m ps ss).
Proof. exact min_mapping_symbol_spec. Qed.

(* which minimal pair is reported may depend on the numbering (C08_min_mapping_order_dependent);
   its count, None and the exceptions do not *)
Theorem C08_min_mapping_order_independent_count : forall ord1 ord2 m ps ss,
  set_order ord1 (mm_syms m) -> set_order ord2 (mm_syms m) -> mm_wf m ->
  match min_mapping_symbol ord1 m ps ss, min_mapping_symbol ord2 m ps ss with
  | MMSOk (Some c1), MMSOk (Some c2) => anchor_count m ps ss c1 = anchor_count m ps ss c2
  | MMSOk None, MMSOk None | MMSValueError, MMSValueError | MMSKeyError, MMSKeyError => True
  | _, _ => False
  end.
Proof. exact min_mapping_order_independent. Qed.

(* for the matrix built from the queried lists themselves (what map_subgraph2 does): never a KeyError; a
   reported pair occurs in the lists and is accepted by the mapper; None only if the mapper accepts no pair *)
Theorem C08_min_mapping_constructed : forall ord mp ps ss m,
  mm_init mp ps ss = Some m -> set_order ord (ps ++ ss) ->
  match min_mapping_symbol ord m ps ss with
  | MMSValueError => (List.length ss < List.length ps)%nat
  | MMSKeyError => False
  | MMSOk None => forall p s, In p ps -> In s ss -> permute mp [p] [s] = []
  | MMSOk (Some c) => In (fst c) ps /\ In (snd c) ss /\ permute mp [fst c] [snd c] <> [] /\ minimal_pair m ps ss c
  end.
Proof. exact min_mapping_init. Qed.

Theorem C08_min_mapping_checker_sound : forall mp psyms ssyms ps ss r,
  minmap_okb mp psyms ssyms ps ss r = true ->
  exists m, mm_init mp psyms ssyms = Some m /\ min_mapping_spec m ps ss r.
Proof. exact minmap_okb_sound. Qed.

(* every mapping map_subgraph2 reports is an embedding of the whole pattern into the host (covers: a
   bijection between the pattern's nodes and distinct host nodes; Embedding: symbols accepted, every
   pattern bond on an equally labelled host bond), whatever the numbering and whatever matrix is passed *)
Theorem C08_map_subgraph2_sound : forall w ic ord G P matrix l,
  wfb G = true -> wfb P = true ->
  map_subgraph2 ord G P (mk_mapper w ic []) matrix = MS2Ok l ->
  forall b pairs, In (b, pairs) l ->
    b = true /\ exists a pa, In pa (nodes P) /\ covers P pairs /\ Embedding w ic G a P pa (pair_fun pairs).
Proof. exact map_subgraph2_sound. Qed.

(* the whole result with the tie-break left open: ValueError for > 1 component, KeyError for a node without
   symbol, ValueError for a pattern with more nodes than the host, AssertionError iff the mapper accepts no
   symbol pair, otherwise the successful anchored matches (pattern nodes outer, host nodes inner loop) of
   SOME minimal anchor-symbol pair *)
Theorem C08_map_subgraph2_spec : forall ord G P mp,
  (forall gl sl, labels_of G = Some gl -> labels_of P = Some sl -> set_order ord (sl ++ gl)) ->
  map_subgraph2_spec G P mp (map_subgraph2 ord G P mp None).
Proof. exact map_subgraph2_spec_holds. Qed.

Theorem C08_map_subgraph2_no_fuel : forall ord G P mp matrix,
  wfb P = true -> map_subgraph2 ord G P mp matrix <> MS2Fuel.
Proof. exact map_subgraph2_no_fuel. Qed.

Theorem C08_map_subgraph2_checker_sound : forall G P mp r,
  map_subgraph2_okb G P mp r = true -> map_subgraph2_spec G P mp r.
Proof. exact map_subgraph2_okb_sound. Qed.

Theorem C08_map_subgraph2_embedding_checker_sound : forall w ic G P l,
  all_embeddingsb w ic G P (MS2Ok l) = true ->
  forall b pairs, In (b, pairs) l ->
    b = true /\ exists a pa, covers P pairs /\ Embedding w ic G a P pa (pair_fun pairs).
Proof. exact all_embeddingsb_sound. Qed.

(** * non-vacuity *)

(* R is the wildcard, H may map to nothing: R takes O, C takes C, H finds no partner *)
Example C08_example :
  permute (mk_mapper (Some "R") false ["H"]) ["R"; "C"; "H"] ["C"; "O"] = [enumerate [1; 0; -1]]
  /\ permute_spec (mk_mapper (Some "R") false ["H"]) ["R"; "C"; "H"] ["C"; "O"] (enumerate [1; 0; -1])
  /\ permute_okb (mk_mapper (Some "R") false ["H"]) ["R"; "C"; "H"] ["C"; "O"] [enumerate [1; 0; -1]] = true.
Proof.
  split; [vm_compute; reflexivity|]. split; [|vm_compute; reflexivity].
  apply C08_sound. vm_compute. left. reflexivity.
Qed.

(* a mapper RECORD whose list does not have the wildcard last (the repaired constructor never builds one,
   see C08_wildcard_last_by_constructor): a wildcard position may or may not map to nothing *)
Example C08_example_wildcard_first :
  permute (mkMapper (Some "Cl") false ["Cl"; "C"]) ["Cl"; "C"] ["X"]
  = [enumerate [0; -1]; enumerate [-1; -1]].
Proof. vm_compute. reflexivity. Qed.

(* regression for the repaired constructor: both orders of the list give the same single answer, also when
   the wildcard is listed in another case under ignore_case *)
Example C08_example_constructor_order :
  permute (mk_mapper (Some "Cl") false ["Cl"; "C"]) ["Cl"; "C"] ["X"] = [enumerate [0; -1]]
  /\ permute (mk_mapper (Some "Cl") false ["C"; "Cl"]) ["Cl"; "C"] ["X"] = [enumerate [0; -1]]
  /\ permute (mk_mapper (Some "R") true ["r"; "H"]) ["R"; "H"] ["X"] = [enumerate [0; -1]]
  /\ permute (mk_mapper (Some "R") true ["H"; "r"]) ["R"; "H"] ["X"] = [enumerate [0; -1]].
Proof. repeat split; vm_compute; reflexivity. Qed.

(* the normal case: R ends up last, the premises of C08_wildcard_exact hold, and exactly
   wild_room = max 0 (3 - 1 - shortage H) = 1 wildcard position maps to nothing in every result *)
Example C08_example_wildcard_last :
  let mp := mk_mapper (Some "R") false ["R"; "H"] in
  wild_last "R" (map (lw false) (m_cmtn mp))
  /\ permute mp ["R"; "R"; "H"] ["C"] = [enumerate [0; -1; -1]; enumerate [-1; 0; -1]]
  /\ wild_room "R" (m_cmtn mp) ["R"; "R"; "H"] ["C"] = 1.
Proof.
  split; [|split; vm_compute; reflexivity].
  apply (C08_wildcard_last_by_constructor "R" false ["R"; "H"]).
Qed.

(* ORDER DEPENDENCE (observed in the implementation under PYTHONHASHSEED=0 vs 1): pattern C-O in host
   C-O-C-O.  (C,C) and (O,O) tie with count 2; the numbering decides which one is reported, and map_subgraph2
   then returns different sets of embeddings: host atoms {0,1},{2,3} when anchored on O, {0,1},{2,1} when
   anchored on C (there are three embeddings in all). *)
Definition ex_coco : graph :=
  [(0, (na_sym "C", [(1, Scalar 2)])); (1, (na_sym "O", [(0, Scalar 2); (2, Scalar 2)]));
   (2, (na_sym "C", [(1, Scalar 2); (3, Scalar 2)])); (3, (na_sym "O", [(2, Scalar 2)]))].
Definition ex_co : graph := [(0, (na_sym "C", [(1, Scalar 2)])); (1, (na_sym "O", [(0, Scalar 2)]))].

Example C08_min_mapping_order_dependent :
  let mp := mk_mapper (Some "R") true [] in
  exists m, mm_init mp ["C"; "O"] ["C"; "O"; "C"; "O"] = Some m
  /\ set_order ["O"; "C"] (mm_syms m) /\ set_order ["C"; "O"] (mm_syms m) /\ mm_wf m
  /\ min_mapping_symbol ["O"; "C"] m ["C"; "O"] ["C"; "O"; "C"; "O"] = MMSOk (Some ("O", "O"))
  /\ min_mapping_symbol ["C"; "O"] m ["C"; "O"] ["C"; "O"; "C"; "O"] = MMSOk (Some ("C", "C"))
  /\ anchor_count m ["C"; "O"] ["C"; "O"; "C"; "O"] ("O", "O") = 2
  /\ anchor_count m ["C"; "O"] ["C"; "O"; "C"; "O"] ("C", "C") = 2.
Proof.
  eexists. split; [apply mm_init_ok|].
  assert (Ho : forall a b : string, a <> b -> NoDup [a; b]).
  { intros a b Hab. constructor; [intros [H|[]]; congruence|]. constructor; [intros []|constructor]. }
  split; [split; [apply Ho; discriminate | intros x; simpl; tauto]|].
  split; [split; [apply Ho; discriminate | intros x; simpl; tauto]|].
  split; [apply (mm_init_wf _ _ _ _ (mm_init_ok _ _ _))|].
  repeat split; vm_compute; reflexivity.
Qed.

Example C08_map_subgraph2_order_dependent :
  let mp := mk_mapper (Some "R") true [] in
  map_subgraph2 ["O"; "C"] ex_coco ex_co mp None = MS2Ok [(true, [(1, 1); (0, 0)]); (true, [(3, 1); (2, 0)])]
  /\ map_subgraph2 ["C"; "O"] ex_coco ex_co mp None = MS2Ok [(true, [(0, 0); (1, 1)]); (true, [(2, 0); (1, 1)])]
  /\ wfb ex_coco = true /\ wfb ex_co = true
  /\ map_subgraph2_okb ex_coco ex_co mp (MS2Ok [(true, [(1, 1); (0, 0)]); (true, [(3, 1); (2, 0)])]) = true
  /\ map_subgraph2_okb ex_coco ex_co mp (MS2Ok [(true, [(0, 0); (1, 1)]); (true, [(2, 0); (1, 1)])]) = true
  /\ all_embeddingsb (Some "R") true ex_coco ex_co (MS2Ok [(true, [(0, 0); (1, 1)]); (true, [(2, 0); (1, 1)])]) = true.
Proof. repeat split; vm_compute; reflexivity. Qed.

(* a matrix over more symbols than the query: the reported pair can name a pattern symbol (the wildcard R)
   that does not occur in the queried pattern list *)
Example C08_min_mapping_foreign_symbol :
  let mp := mk_mapper (Some "R") true [] in
  option_map (fun m => min_mapping_symbol ["R"; "C"] m ["C"] ["C"]) (mm_init mp ["C"; "R"] ["C"])
  = Some (MMSOk (Some ("R", "C"))).
Proof. vm_compute. reflexivity. Qed.

Print Assumptions C08_sound.
Print Assumptions C08_complete.
Print Assumptions C08_nodup.
Print Assumptions C08_empty_pattern.
Print Assumptions C08_nothing_only_if_allowed.
Print Assumptions C08_structure_wildcard.
Print Assumptions C08_wildcard_exact.
Print Assumptions C08_wildcard_last_by_constructor.
Print Assumptions C08_perms.
Print Assumptions C08_perms_nodup.
Print Assumptions C08_gen_sound.
Print Assumptions C08_gen_complete.
Print Assumptions C08_permute_sound.
Print Assumptions C08_permute_complete.
Print Assumptions C08_single.
Print Assumptions C08_matrix.
Print Assumptions C08_checker_sound.
Print Assumptions C08_checker_sound_partial.
Print Assumptions C08_matrix_checker.
Print Assumptions C08_min_mapping_spec.
Print Assumptions C08_min_mapping_order_independent_count.
Print Assumptions C08_min_mapping_constructed.
Print Assumptions C08_min_mapping_checker_sound.
Print Assumptions C08_map_subgraph2_sound.
Print Assumptions C08_map_subgraph2_spec.
Print Assumptions C08_map_subgraph2_no_fuel.
Print Assumptions C08_map_subgraph2_checker_sound.
Print Assumptions C08_map_subgraph2_embedding_checker_sound.
