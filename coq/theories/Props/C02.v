(** C02 - the parser agrees with RDKit on plain SMILES, atom index for atom index.
    Parser side (proved here): C02 is the instance of C01 on the plain fragment - organic-subset
    atoms without brackets, bond symbols - = # :, single-digit ring labels, dots; no wildcard,
    label node or <g,h> bond. On that fragment [denote_simple 0 false] is the reference reading of
    the SMILES: atoms numbered 0.. in textual order, an implied bond is aromatic (1.5) between
    two lower-case atoms and single otherwise, the symbol at a ring-closing digit gives the
    ring-bond order, a dot is no bond. RDKit side: its agreement with this reference reading is
    VALIDATED on every run by harness/props/c02.py (RDKit's SMILES reader is not modelled). *)
From Coq Require Import ZArith List Bool String.
Import ListNotations.
From FGV Require Import Base.Util Base.Bond Base.NX Model.Parse Spec.ParseSpec Spec.SmilesCheck Proofs.ParseProofs.
Open Scope string_scope.
Open Scope Z_scope.

Theorem C02 : forall t,
  plain t = true -> wf false t = true ->
  parse_simple false 0 (print t) = Ok (denote_simple 0 false t) /\
  has_rc t = false /\
  nodes (denote_simple 0 false t) = map Z.of_nat (seq 0 (natoms t)) /\
  (forall p q lb, edge_label (denote_simple 0 false t) p q = Some lb <->
                  In (AEdge p q lb) (sem t) \/ In (AEdge q p lb) (sem t)) /\
  (forall p q lb, edge_label (denote_simple 0 false t) p q = Some lb -> plain_label lb).
Proof. exact plain_parse. Qed.

(* non-vacuity: toluene-like text with an explicit ring-closure double bond *)
Definition ex_plain : chain :=
  Chain (At "C") (RNext Implied (Chain (At "c") (RRing Implied "1"
    (RNext Implied (Chain (At "c") (RNext Implied (Chain (At "C") (RRing (Sym "=") "1" RNil)))))))).
Example C02_example : plain ex_plain = true /\ wf false ex_plain = true /\ print ex_plain = "Cc1cC=1" /\
  sem_edges (sem ex_plain) = [(0, 1, Scalar 2); (1, 2, Scalar 3); (2, 3, Scalar 2); (3, 1, Scalar 4)].
Proof. vm_compute. repeat split; reflexivity. Qed.

Print Assumptions C02.
