(** C13 — node substitution re-attaches each bond to the right anchor, nothing else moves.
    This file holds only the property theorems; proofs live in Proofs/ProxyProofs.v (simple
    graphs), Proofs/ProxyMultiProofs.v (multigraphs), Proofs/ProxyCheckProofs.v (checkers), on top
    of the networkx fact libraries Proofs/NXComposeFacts.v and Proofs/NXMultiFacts.v. *)
From Coq Require Import ZArith List String.
Import ListNotations.
From FGV Require Import Base.Util Base.Bond Base.NX Base.NXFacts Base.NXMulti Model.NXMultiOps Model.Proxy
  Spec.ProxySpec Spec.ProxyCheck Proofs.ProxyProofs Proofs.ProxyMultiProofs Proofs.ProxyCheckProofs.
Open Scope Z_scope.
Open Scope string_scope.

(* Simple graphs. For a well-formed parent on ids 0..m-1, a node of it, a well-formed
   sub-pattern graph on ids m..m+k-1 and (when k > 0) a non-empty anchor list inside the
   sub-pattern, replace_node returns normally and its result, read through the order-preserving
   renumbering r of (0..m+k-1 minus node): has ids 0..m+k-2; keeps every other parent node's
   attributes and the bonds among them; contains the sub-pattern's nodes and bonds verbatim;
   and has a bond labelled l between sub-pattern node x and parent node y exactly when some
   i-th incident edge of the replaced node is (node, y, l) and x is the anchor for index i
   (the i-th anchor, the last one when the anchors run out). k = 0: parent minus node. *)
Theorem C13_replace_node : forall g node h anchors,
  replace_pre g node h anchors ->
  exists g', replace_node g node h anchors = POk g' /\ replace_spec g node h anchors g'.
Proof. exact replace_node_spec. Qed.

(* whatever the input (any ids, any anchors): if replace_node returns, the ids are exactly 0..n-1 *)
Theorem C13_replace_node_ids : forall g node h anchors g',
  replace_node g node h anchors = POk g' ->
  ids_range (nodes g') 0 (number_of_nodes g') /\ NoDup (nodes g').
Proof. exact replace_node_ids. Qed.

(* the decidable checkers the harness runs on every implementation output are sound *)
Theorem C13_pre_checker_sound : forall g node h anchors,
  replace_preb g node h anchors = true -> replace_pre g node h anchors.
Proof. exact replace_preb_sound. Qed.

Theorem C13_checker_sound : forall g node h anchors g',
  replace_preb g node h anchors = true ->
  replace_okb g node h anchors (POk g') = true ->
  replace_spec g node h anchors g'.
Proof. exact replace_okb_sound. Qed.

(* Multigraphs (the graphs Proxy works on by default): the same statement with the multiset of
   parallel bonds between two nodes in place of the single label -- mcount g u v l is the number
   of parallel u-v bonds labelled l. Every bond of the replaced node, parallel ones included,
   yields exactly one new bond from its neighbour to the anchor chosen by its position in
   graph.edges(node); add_edge never overwrites on a MultiGraph. *)
Theorem C13_replace_node_multi : forall g node h anchors,
  replace_multi_pre g node h anchors ->
  exists g', replace_node_multi g node h anchors = POk g' /\ replace_multi_spec g node h anchors g'.
Proof. exact replace_node_multi_spec. Qed.

Theorem C13_replace_node_multi_ids : forall g node h anchors g',
  replace_node_multi g node h anchors = POk g' ->
  ids_range (mnodes g') 0 (mnumber_of_nodes g') /\ NoDup (mnodes g').
Proof. exact replace_node_multi_ids. Qed.

(* the fuel given to the two while-loops of the MultiGraph model (new_edge_key, key conflicts in
   relabel_nodes) always suffices: the model never reports EFuel *)
Theorem C13_multi_fuel_suffices : forall g node h anchors,
  replace_node_multi g node h anchors <> PErr EFuel.
Proof. exact replace_node_multi_no_fuel. Qed.

Theorem C13_multi_pre_checker_sound : forall g node h anchors,
  replace_multi_preb g node h anchors = true -> replace_multi_pre g node h anchors.
Proof. exact replace_multi_preb_sound. Qed.

Theorem C13_multi_checker_sound : forall g node h anchors g',
  replace_multi_preb g node h anchors = true ->
  replace_multi_okb g node h anchors (POk g') = true ->
  replace_multi_spec g node h anchors g'.
Proof. exact replace_multi_okb_sound. Qed.

(** non-vacuity *)

Definition atom (s : string) : nattr := mkNA (Some s) None (Some []) (Some false) None.
Definition grp (l : string) : nattr := mkNA (Some "#") None (Some [l]) (Some true) None.

(* the D21 witness: parse("C1C={g}#1"), node 2, pattern "NO", anchors [0; 1].
   Incident order of node 2 is [(2,1,"="); (2,0,"#")]: N receives "=" to atom 1, O receives "#" to atom 0. *)
Definition d21_g : graph :=
  [(0, (atom "C", [(1, Scalar 2); (2, Scalar 6)]));
   (1, (atom "C", [(0, Scalar 2); (2, Scalar 4)]));
   (2, (grp "g", [(1, Scalar 4); (0, Scalar 6)]))].
Definition d21_h : graph :=
  [(3, (atom "N", [(4, Scalar 2)])); (4, (atom "O", [(3, Scalar 2)]))].

Example C13_example_d21 :
  replace_node d21_g 2 d21_h [0; 1] =
  POk [(0, (atom "C", [(1, Scalar 2); (3, Scalar 6)]));
       (1, (atom "C", [(0, Scalar 2); (2, Scalar 4)]));
       (2, (atom "N", [(1, Scalar 4); (3, Scalar 2)]));
       (3, (atom "O", [(0, Scalar 6); (2, Scalar 2)]))].
Proof. vm_compute. reflexivity. Qed.

(* the hypotheses of the theorem are satisfiable (they hold for the witness) *)
Example C13_example_pre : replace_pre d21_g 2 d21_h [0; 1].
Proof. apply replace_preb_sound. vm_compute. reflexivity. Qed.

(* empty sub-pattern: the node disappears with its bonds *)
Example C13_example_empty :
  replace_node d21_g 2 [] [0] =
  POk [(0, (atom "C", [(1, Scalar 2)])); (1, (atom "C", [(0, Scalar 2)]))].
Proof. vm_compute. reflexivity. Qed.

(* the checker rejects the pre-repair behaviour (anchors swapped) on the witness *)
Example C13_example_checker_rejects :
  replace_okb d21_g 2 d21_h [0; 1]
    (POk [(0, (atom "C", [(1, Scalar 2); (2, Scalar 6)]));
          (1, (atom "C", [(0, Scalar 2); (3, Scalar 4)]));
          (2, (atom "N", [(0, Scalar 6); (3, Scalar 2)]));
          (3, (atom "O", [(1, Scalar 4); (2, Scalar 2)]))]) = false.
Proof. vm_compute. reflexivity. Qed.

(* multigraph: parse("C1{g}1C") has a double C-{g} attachment; pattern "CO", anchors [0; 1]:
   the first parallel bond goes to C, the second to O, the third bond (to the other C) to the last anchor O *)
Definition par_g : mgraph :=
  [(0, (atom "C", [(1, [(0, Scalar 2); (1, Scalar 2)])]));
   (1, (grp "g", [(0, [(0, Scalar 2); (1, Scalar 2)]); (2, [(0, Scalar 2)])]));
   (2, (atom "C", [(1, [(0, Scalar 2)])]))].
Definition par_h : mgraph :=
  [(3, (atom "C", [(4, [(0, Scalar 2)])])); (4, (atom "O", [(3, [(0, Scalar 2)])]))].

Example C13_example_multi :
  replace_node_multi par_g 1 par_h [0; 1] =
  POk [(0, (atom "C", [(2, [(0, Scalar 2)]); (3, [(0, Scalar 2)])]));
       (1, (atom "C", [(3, [(0, Scalar 2)])]));
       (2, (atom "C", [(0, [(0, Scalar 2)]); (3, [(0, Scalar 2)])]));
       (3, (atom "O", [(0, [(0, Scalar 2)]); (1, [(0, Scalar 2)]); (2, [(0, Scalar 2)])]))].
Proof. vm_compute. reflexivity. Qed.

Example C13_example_multi_pre : replace_multi_pre par_g 1 par_h [0; 1].
Proof. apply replace_multi_preb_sound. vm_compute. reflexivity. Qed.

(* one anchor only: both parallel bonds are kept as two parallel bonds to the anchor *)
Example C13_example_multi_parallel_kept :
  match replace_node_multi par_g 1 par_h [1] with
  | POk g' => mcount g' 0 3 (Scalar 2) = 2%nat /\ mcount g' 1 3 (Scalar 2) = 1%nat
  | PErr _ => False
  end.
Proof. vm_compute. split; reflexivity. Qed.

Print Assumptions C13_replace_node.
Print Assumptions C13_replace_node_ids.
Print Assumptions C13_pre_checker_sound.
Print Assumptions C13_checker_sound.
Print Assumptions C13_replace_node_multi.
Print Assumptions C13_replace_node_multi_ids.
Print Assumptions C13_multi_fuel_suffices.
Print Assumptions C13_multi_pre_checker_sound.
Print Assumptions C13_multi_checker_sound.
