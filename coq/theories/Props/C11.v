(** C11 -- reaction centre and radius pruning are exact.
    This file holds only the property theorems; proofs live in Proofs/{Walk,UnreachProofs,
    RcProofs,PruneProofs,PruneCheckProofs}.v. [wf] = the graph is a networkx.Graph (unique
    ids, symmetric adjacency); any node ids, any labels. *)
From Coq Require Import ZArith List String Sorted.
Import ListNotations.
From FGV Require Import Base.Util Base.Bond Base.NX Base.NXFacts Model.Matrix Model.Prune
  Spec.WalkDef Spec.PruneSpec Spec.PruneCheck
  Proofs.Walk Proofs.UnreachProofs Proofs.RcProofs Proofs.PruneProofs Proofs.PruneCheckProofs Proofs.UnreachMore.
Open Scope Z_scope.

(** ** walks and adjacency-matrix powers *)

(* entry (i,j) of A^k is >= 0 and it is > 0 iff there is a walk of exactly k steps from the
   i-th to the j-th node (positions in the sorted node list, as in the code) *)
Theorem C11_adjacency_power : forall g k u v i j,
  wf g ->
  let N := zsort (nodes g) in
  index_of u N = Some i -> index_of v N = Some j ->
  let x := entry (mat_pow (adj_matrix g N) (List.length N) k) i j in
  0 <= x /\ (0 < x <-> gwalk g k u v).
Proof. exact graph_power_entry. Qed.

(* entry (i,j) of I + A + ... + A^r, as accumulated by the loop, is > 0 iff v is within r steps of u *)
Theorem C11_adjacency_power_sum : forall g r u v i j,
  wf g ->
  let N := zsort (nodes g) in
  index_of u N = Some i -> index_of v N = Some j ->
  let x := entry (iter_sum r (adj_matrix g N) (ident (List.length N)) (ident (List.length N))) i j in
  0 <= x /\ (0 < x <-> greach g r u v).
Proof. exact graph_power_sum_entry. Qed.

(* [greach g r s v] is "shortest-path distance from s to v <= r" *)
Theorem C11_reach_0 : forall g s v, greach g 0 s v <-> s = v.
Proof. exact greach_O. Qed.

Theorem C11_reach_S : forall g r s v,
  greach g (S r) s v <-> greach g r s v \/ exists w, greach g r s w /\ has_edge g w v = true.
Proof. exact greach_S. Qed.

(** ** get_unreachable_nodes *)

(* the result lists, in strictly increasing id order, exactly the nodes that no start node
   reaches within r steps *)
Theorem C11_unreachable : forall g S r L,
  wf g -> get_unreachable_nodes g S r = Ok L -> unreachable_spec g S r L.
Proof. exact unreachable_spec_holds. Qed.

(* start nodes are at distance 0: never reported, whatever the radius *)
Theorem C11_start_never_unreachable : forall g S r L s,
  wf g -> get_unreachable_nodes g S r = Ok L -> In s S -> ~ In s L.
Proof. exact start_never_unreachable. Qed.

(* a node that is not reported is within r steps of some start node *)
Theorem C11_unreachable_complement : forall g S r L v,
  wf g -> get_unreachable_nodes g S r = Ok L -> has_node g v = true -> ~ In v L ->
  exists s, In s S /\ greach g r s v.
Proof. exact unreachable_complement. Qed.

(* it succeeds iff the graph is non-empty and every start node is a node; otherwise the
   exception is NetworkXError (empty graph) or KeyError (unknown start node) *)
Theorem C11_unreachable_result : forall g S r,
  wf g ->
  match get_unreachable_nodes g S r with
  | Ok _ => nodes g <> [] /\ forall s, In s S -> has_node g s = true
  | Err NetworkXError => nodes g = []
  | Err KeyError => nodes g <> [] /\ exists s, In s S /\ has_node g s = false
  | Err _ => False
  end.
Proof. exact unreachable_result. Qed.

(* the result shrinks when the radius grows ... *)
Theorem C11_unreachable_antitone_radius : forall g S r r' L L',
  wf g -> (r <= r')%nat ->
  get_unreachable_nodes g S r = Ok L -> get_unreachable_nodes g S r' = Ok L' -> incl L' L.
Proof. exact unreachable_antitone_radius. Qed.

(* ... and when the start set grows *)
Theorem C11_unreachable_antitone_start : forall g S S' r L L',
  wf g -> incl S S' ->
  get_unreachable_nodes g S r = Ok L -> get_unreachable_nodes g S' r = Ok L' -> incl L' L.
Proof. exact unreachable_antitone_start. Qed.

(* the specification admits exactly one result list, so a list the checker accepts is the model's output *)
Theorem C11_unreachable_spec_unique : forall g S r L1 L2,
  unreachable_spec g S r L1 -> unreachable_spec g S r L2 -> L1 = L2.
Proof. exact unreachable_spec_unique. Qed.

Theorem C11_unreachable_checker_exact : forall g S r L,
  wf g -> unreachable_okb g S r (Ok L) = true ->
  forall L', get_unreachable_nodes g S r = Ok L' -> L' = L.
Proof. exact unreachable_okb_exact. Qed.

(** ** get_rc *)

(* exactly the bonds whose two label components differ, exactly their end atoms, symbol only *)
Theorem C11_rc : forall its, wf its -> forall rc, get_rc its = Ok rc -> rc_spec its rc.
Proof. exact rc_spec_holds. Qed.

Theorem C11_rc_errors : forall its, wf its -> forall e,
  get_rc its = Err e ->
  (e = TypeError /\ exists u v l, edge_label its u v = Some l /\ lab_differs l = None)
  \/ (e = KeyError /\ exists n, rc_node its n /\ sym_of its n = None).
Proof. exact rc_error. Qed.

Theorem C11_rc_total : forall its, wf its ->
  (forall u v l, edge_label its u v = Some l -> lab_differs l <> None) ->
  (forall n, rc_node its n -> sym_of its n <> None) ->
  exists rc, get_rc its = Ok rc.
Proof. exact rc_total. Qed.

(** ** prune_its_to_rc *)

(* kept old atoms = those within r steps of the reaction centre, attributes and all bonds
   among them unchanged, no other bond among old atoms; with insert_hydrogens the new nodes
   are in one-to-one correspondence with the cut bonds (symbol H only, a single (1,1) bond
   to the kept end, ids pairwise distinct and above every id of the input); without, no new node *)
Theorem C11_prune : forall its r ih out,
  wf its -> prune_its_to_rc its r ih = Ok out -> prune_spec its r ih out.
Proof. exact prune_spec_holds. Qed.

(* on the ITS domain pruning never raises *)
Theorem C11_prune_total : forall its r ih,
  wf its -> nodes its <> [] ->
  (forall u v l, edge_label its u v = Some l -> lab_differs l <> None) ->
  (forall n, rc_node its n -> sym_of its n <> None) ->
  exists out, prune_its_to_rc its r ih = Ok out.
Proof. exact prune_total. Qed.

Theorem C11_prune_errors : forall its r ih e,
  wf its -> prune_its_to_rc its r ih = Err e ->
  get_rc its = Err e \/ (e = NetworkXError /\ nodes its = []).
Proof. exact prune_error. Qed.

(** ** the checkers run by the harness on every implementation output are sound *)

Theorem C11_reachb_sound : forall g r s v, wf g -> (reachb g r s v = true <-> greach g r s v).
Proof. exact reachb_greach. Qed.

Theorem C11_rc_checker_sound : forall its out,
  wf its -> rc_okb its out = true ->
  match out with
  | Ok rc => rc_spec its rc
  | Err TypeError => exists u v l, edge_label its u v = Some l /\ lab_differs l = None
  | Err KeyError => exists n, rc_node its n /\ sym_of its n = None
  | Err _ => False
  end.
Proof. exact rc_okb_sound. Qed.

Theorem C11_unreachable_checker_sound : forall g S r out,
  wf g -> unreachable_okb g S r out = true ->
  match out with
  | Ok L => unreachable_spec g S r L
  | Err NetworkXError => nodes g = []
  | Err KeyError => exists s, In s S /\ has_node g s = false
  | Err _ => False
  end.
Proof. exact unreachable_okb_sound. Qed.

Theorem C11_prune_checker_sound : forall its r ih out,
  wf its -> prune_okb its r ih out = true ->
  match out with
  | Ok o => prune_spec its r ih o
  | Err TypeError => exists u v l, edge_label its u v = Some l /\ lab_differs l = None
  | Err KeyError => exists n, rc_node its n /\ sym_of its n = None
  | Err NetworkXError => nodes its = []
  | Err ValueError => False
  end.
Proof. exact prune_okb_sound. Qed.

(** ** non-vacuity *)

Definition ex_pentane : graph :=
  let c := na_sym "C"%string in
  [(0, (c, [(1, Scalar 2)])); (1, (c, [(0, Scalar 2); (2, Scalar 2)]));
   (2, (c, [(1, Scalar 2); (3, Scalar 2)])); (3, (c, [(2, Scalar 2); (4, Scalar 2)]));
   (4, (c, [(3, Scalar 2)]))].

(* pentane, start [0], r = 1 : atoms 2, 3, 4 are out of reach, the start atom is not *)
Example C11_example_pentane :
  wfb ex_pentane = true /\ get_unreachable_nodes ex_pentane [0] 1 = Ok [2; 3; 4].
Proof. vm_compute. split; reflexivity. Qed.

(* C1-C2 kept, C2-Cl3 broken, C2-O4 formed (ids = map numbers from 1) *)
Definition ex_its : graph :=
  [(1, (na_sym "C"%string, [(2, Pair 2 2)]));
   (2, (na_sym "C"%string, [(1, Pair 2 2); (3, Pair 2 0); (4, Pair 0 2)]));
   (3, (na_sym "Cl"%string, [(2, Pair 2 0)]));
   (4, (na_sym "O"%string, [(2, Pair 0 2)]))].

Example C11_example_rc :
  wfb ex_its = true
  /\ get_rc ex_its
     = Ok [(2, (na_sym "C"%string, [(3, Pair 2 0); (4, Pair 0 2)]));
           (3, (na_sym "Cl"%string, [(2, Pair 2 0)]));
           (4, (na_sym "O"%string, [(2, Pair 0 2)]))].
Proof. vm_compute. split; reflexivity. Qed.

(* radius 0 with hydrogens: atom 1 is cut, one hydrogen with the fresh id 5 replaces it *)
Example C11_example_prune :
  prune_its_to_rc ex_its 0 true
  = Ok [(2, (na_sym "C"%string, [(3, Pair 2 0); (4, Pair 0 2); (5, Pair 2 2)]));
        (3, (na_sym "Cl"%string, [(2, Pair 2 0)]));
        (4, (na_sym "O"%string, [(2, Pair 0 2)]));
        (5, (na_sym "H"%string, [(2, Pair 2 2)]))]
  /\ prune_okb ex_its 0 true (prune_its_to_rc ex_its 0 true) = true
  /\ prune_its_to_rc ex_its 0 false
     = Ok [(2, (na_sym "C"%string, [(3, Pair 2 0); (4, Pair 0 2)]));
           (3, (na_sym "Cl"%string, [(2, Pair 2 0)]));
           (4, (na_sym "O"%string, [(2, Pair 0 2)]))]
  /\ prune_its_to_rc ex_its 1 true = Ok ex_its.
Proof. vm_compute. repeat split; reflexivity. Qed.

Print Assumptions C11_adjacency_power.
Print Assumptions C11_adjacency_power_sum.
Print Assumptions C11_reach_0.
Print Assumptions C11_reach_S.
Print Assumptions C11_unreachable.
Print Assumptions C11_start_never_unreachable.
Print Assumptions C11_unreachable_complement.
Print Assumptions C11_unreachable_result.
Print Assumptions C11_rc.
Print Assumptions C11_rc_errors.
Print Assumptions C11_rc_total.
Print Assumptions C11_prune.
Print Assumptions C11_prune_total.
Print Assumptions C11_prune_errors.
Print Assumptions C11_reachb_sound.
Print Assumptions C11_rc_checker_sound.
Print Assumptions C11_unreachable_checker_sound.
Print Assumptions C11_prune_checker_sound.
Print Assumptions C11_example_pentane.
Print Assumptions C11_example_rc.
Print Assumptions C11_example_prune.
Print Assumptions C11_unreachable_antitone_radius.
Print Assumptions C11_unreachable_antitone_start.
Print Assumptions C11_unreachable_spec_unique.
Print Assumptions C11_unreachable_checker_exact.
