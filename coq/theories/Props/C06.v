(** C06 -- functional-group queries are deterministic and pure.
    This file holds only the property theorems; proofs live in Proofs/QueryHistory.v.

    Model: Model/Query.v.  An FGQuery object is (mapper, configuration list, flag, cached tree);
    [get q g] returns the answer and the object afterwards (FGConfigProvider.get_tree builds the
    tree on first use and keeps it).  The model has no hash function at all (the repaired sort key
    is (pattern_len, len(pattern), number_of_edges, pattern_str)), so the answer is a function of
    the molecule and the configuration by construction; what remains to prove is independence of
    the object's history.  Hash-seed independence and non-mutation of the argument of the
    IMPLEMENTATION are runtime facts validated by the harness (7 hash seeds, before/after
    comparison of the graph). *)
From Coq Require Import ZArith List Bool String.
Import ListNotations.
From FGV Require Import Base.Util Base.Bond Base.NX Model.Permute Model.Match Model.FGTree Model.FGDefaultCfg
                        Model.Query Spec.FGCheck Proofs.FGDefaultTree Proofs.QueryHistory Proofs.PreRepairD9.

(* C06_history: after ANY sequence of earlier get() calls on the same object (whatever molecules,
   whether they succeeded or raised) the answer equals the answer of a freshly built object *)
Theorem C06_history : forall mp cfgs req_h hist g,
  fst (get (run_history (fresh_query mp cfgs req_h) hist) g) = query mp cfgs req_h g.
Proof. exact history_independent. Qed.

(* asking the same object again gives the same answer *)
Theorem C06_ask_twice : forall mp cfgs req_h g,
  let q := fresh_query mp cfgs req_h in
  fst (get (snd (get q g)) g) = fst (get q g).
Proof. exact ask_twice. Qed.

(* C06_fresh: two objects built from equal arguments agree whatever was asked of them before *)
Theorem C06_fresh : forall mp cfgs req_h hist hist' g,
  fst (get (run_history (fresh_query mp cfgs req_h) hist) g)
  = fst (get (run_history (fresh_query mp cfgs req_h) hist') g).
Proof. exact two_objects_agree. Qed.

(* a failed tree construction (is_subgroup asserts) leaves the object unchanged: every later call
   fails the same way *)
Theorem C06_failed_build_not_cached : forall mp cfgs req_h e g,
  build_config_tree_from_list mp cfgs = Bad e ->
  get (fresh_query mp cfgs req_h) g = (Bad e, fresh_query mp cfgs req_h).
Proof. exact failed_build_not_cached. Qed.

(* the constant used by the case files for the default configuration is what the model computes *)
Theorem C06_default_query_cached : forall req_h g,
  query default_mapper default_configs req_h g = default_query_fast req_h g.
Proof. exact default_query_fast_ok. Qed.

(* C06_hash_refuted (regression witness for D9, the PRE-repair key (pattern_len, len(pattern),
   hash(pattern_str))): with the tree construction parameterised by the hash function, two hash
   functions give different answers for O=CCl; the repaired model gives acyl_chloride *)
Theorem C06_hash_refuted :
  old_query h_len true formyl_chloride = Good [("aldehyde"%string, [0; 1]%Z)]
  /\ old_query h_neg true formyl_chloride = Good [("acyl_chloride"%string, [0; 1; 2]%Z)]
  /\ query default_mapper default_configs true formyl_chloride = Good [("acyl_chloride"%string, [0; 1; 2]%Z)].
Proof. exact hash_dependence. Qed.

(* non-vacuity: a history that contains a raising call (tuple bond label -> TypeError) *)
Example C06_example :
  let bad : graph := [(0, (na_sym "C", [(1, Pair 2 2)])); (1, (na_sym "O", [(0, Pair 2 2)]))]%Z in
  let q := fresh_query default_mapper default_configs true in
  fst (get q bad) = Bad TypeErr
  /\ fst (get (run_history q [bad; formyl_chloride]) formyl_chloride) = Good [("acyl_chloride"%string, [0; 1; 2]%Z)].
Proof. split; vm_compute; reflexivity. Qed.

Print Assumptions C06_history.
Print Assumptions C06_ask_twice.
Print Assumptions C06_fresh.
Print Assumptions C06_failed_build_not_cached.
Print Assumptions C06_default_query_cached.
Print Assumptions C06_hash_refuted.
