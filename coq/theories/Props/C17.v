(** C17 — connected induced subgraph enumeration is exact.
    For any well-formed graph (networkx.Graph model: any size, any integer ids, any node and
    adjacency order) and any anchor node, node_induced_connected_subgraphs returns normally and
    the list of everything it yields contains every connected node set that contains the anchor
    exactly once (as a set) and nothing else.
    This file holds only the property theorems; proofs live in Proofs/Cis*.v. *)
From Coq Require Import ZArith List.
Import ListNotations.
From FGV Require Import Base.Util Base.Bond Base.NX Model.Cis Spec.CisSpec Spec.CisCheck
  Proofs.CisCore Proofs.CisRelabel Proofs.CisTop Proofs.CisCheckProofs.
Open Scope Z_scope.

(* The full statement (Spec/CisSpec.v, C17_full_statement): for every G with wfb G (unique node
   ids, symmetric adjacency without repeated neighbours) and every anchor in G there is a list
   [out] with  node_induced_connected_subgraphs G anchor = Ok out  — so no exception, in
   particular the assert in enumerateCIS never fires and the model's recursion fuel suffices —
   and cis_spec G anchor out = cis_sound /\ cis_unique /\ cis_complete. *)
Theorem C17 : C17_full_statement.
Proof. exact C17_full. Qed.

(* the three parts, for whatever list the function returns:
   soundness   - every yielded list is duplicate-free, contains the anchor, consists of nodes of G
                 and induces a connected subgraph (hence never leaves the anchor's component);
   uniqueness  - two positions of the output holding the same node set are the same position;
   completeness- every connected node set containing the anchor is yielded. *)
Theorem C17_parts_of_output : forall G anchor out,
  wfb G = true -> In anchor (nodes G) ->
  node_induced_connected_subgraphs G anchor = Ok out ->
  cis_sound G anchor out /\ cis_unique out /\ cis_complete G anchor out.
Proof. exact C17_parts. Qed.

(* an anchor that is not a node: the call fails with networkx's "node not in the graph" *)
Theorem C17_anchor_missing : forall G anchor,
  wfb G = true -> ~ In anchor (nodes G) -> node_induced_connected_subgraphs G anchor = Err ENode.
Proof. exact no_anchor. Qed.

(* the core of the argument, on the relabelled graph (ids 0..n-1, anchor 0), where connectivity is
   "reached from 0 by a walk inside the set"; holds without assuming symmetric adjacency *)
Theorem C17_core : forall H n, canon H n -> inr n 0 ->
  exists out, nics_inner H 0 = Ok out /\
  (forall Y, In Y out -> NoDup Y /\ In 0 Y /\ (forall y, In y Y -> inr n y) /\ (forall y, In y Y -> walk H Y 0 y)) /\
  cis_unique out /\
  (forall S, In 0 S -> (forall v, In v S -> walk H S 0 v) -> exists Y, In Y out /\ same_set Y S).
Proof. exact core_correct. Qed.

(* the breadth-first test decides connectivity of the induced subgraph *)
Theorem C17_connb_decides : forall G S, wfb G = true -> (connb G S = true <-> connected G S).
Proof. exact connb_connected. Qed.

(* the reference enumeration (filter all subsets by the test) decides the specification *)
Theorem C17_reference_sound : forall G anchor S, wfb G = true -> In S (connected_sets G anchor) ->
  In anchor (nodes G) /\ NoDup S /\ In anchor S /\ incl S (nodes G) /\ connected G S.
Proof. exact connected_sets_sound. Qed.

Theorem C17_reference_complete : forall G anchor S, wfb G = true -> In anchor (nodes G) ->
  In anchor S -> connected G S -> exists S', In S' (connected_sets G anchor) /\ same_set S' S.
Proof. exact connected_sets_complete. Qed.

(* the decidable checker the harness runs on every implementation output is sound *)
Theorem C17_checker_sound : forall G anchor out, wfb G = true -> cis_okb G anchor out = true ->
  match out with
  | Ok l => In anchor (nodes G) /\ cis_spec G anchor l
  | Err e => e = ENode /\ ~ In anchor (nodes G)
  end.
Proof. exact cis_okb_sound. Qed.

(* bounded version obtained independently of the general proof, by evaluating the model and the
   checker on every simple graph with nodes 0..n-1, n <= 5 (1024 graphs for n = 5), every anchor *)
Theorem C17_bounded : forall n G anchor, (n <= 5)%nat -> In G (all_graphs n) -> In anchor (nodes G) ->
  wfb G = true /\ exists out, node_induced_connected_subgraphs G anchor = Ok out /\ cis_spec G anchor out.
Proof. exact C17_bounded_5. Qed.

(* non-vacuity: a triangle 5-7-9 with a pendant node 11 at 9, anchor 7 (ids sparse, anchor in
   the middle of the node order); the graph is well-formed, the model's output is as shown and
   passes the checker *)
Example C17_example :
  let e := Scalar 2 in
  let g : graph := [(5, (na_empty, [(7,e);(9,e)])); (7, (na_empty, [(5,e);(9,e)]));
                    (9, (na_empty, [(5,e);(7,e);(11,e)])); (11, (na_empty, [(9,e)]))] in
  wfb g = true /\ In 7 (nodes g)
  /\ node_induced_connected_subgraphs g 7
     = Ok [[7]; [7; 5]; [7; 5; 9]; [7; 5; 9; 11]; [7; 9]; [7; 9; 11]]
  /\ cis_okb g 7 (node_induced_connected_subgraphs g 7) = true
  /\ node_induced_connected_subgraphs g 8 = Err ENode.
Proof. vm_compute. repeat split; try reflexivity. right. left. reflexivity. Qed.

(* non-vacuity of the bounded theorem: the enumeration really has 2^10 graphs on 5 nodes *)
Example C17_bounded_scope :
  map (fun n => List.length (all_graphs n)) [0; 1; 2; 3; 4; 5]%nat = [1; 1; 2; 8; 64; 1024]%nat.
Proof. vm_compute. reflexivity. Qed.

Print Assumptions C17.
Print Assumptions C17_parts_of_output.
Print Assumptions C17_anchor_missing.
Print Assumptions C17_core.
Print Assumptions C17_connb_decides.
Print Assumptions C17_reference_sound.
Print Assumptions C17_reference_complete.
Print Assumptions C17_checker_sound.
Print Assumptions C17_bounded.
Print Assumptions C17_example.
Print Assumptions C17_bounded_scope.
