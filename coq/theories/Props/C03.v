(** C03 -- anchored sub-graph matching never misses an embedding; consequently the
    un-anchored variant reports True whenever any embedding exists.
    This file holds only the property theorems; proofs live in Proofs/Match*.v.

    Model: Model/Match.v (the repaired breadth-first backtracking search of
    fgutils/algorithm/subgraph.py) on top of Model/Permute.v.  [mk_mapper w ic []] is
    PermutationMapper(wildcard=w, ignore_case=ic, can_map_to_nothing=[]).
    The facts about Model.Permute.permute that the proofs use ([permute_spec_holds w ic],
    Spec/PermuteAssign.v: every returned assignment is admissible and total, every admissible
    total assignment is returned) are proved in Proofs/PermuteNil.v; the [_from_spec] variants
    at the end keep them as an explicit premise. *)
From Coq Require Import ZArith List String.
Import ListNotations.
From FGV Require Import Base.Util Base.Bond Base.NX Model.Permute Model.Match Spec.Embedding
  Spec.PermuteAssign Spec.MatchCheck Proofs.EmbeddingFacts Proofs.PermuteNil Proofs.MatchTheorems Proofs.MatchTotal.
Open Scope Z_scope.

(* Whenever the pattern P embeds into the host G with the pattern anchor pa on the host
   anchor a (Spec/Embedding.v: total injective node map, symbols accepted pattern -> host,
   every pattern bond on a host bond with an equal label), anchored matching succeeds.
   All hosts (cyclic or not, any ids), all patterns (connected or not), all anchor pairs,
   all four wildcard / ignore_case settings. *)
Theorem C03 : forall w ic G P, wfb G = true -> wfb P = true ->
  forall a pa f, has_syms G -> Embedding w ic G a P pa f ->
  exists pairs vis, map_anchored_subgraph G P (mk_mapper w ic []) a pa = Ok (true, pairs, vis).
Proof. exact (fun w ic => C03_thm w ic (permute_spec_nil w ic)). Qed.

(* map_subgraph_to_graph on a host whose ids are 0..n-1 (what its loop iterates):
   True whenever some embedding exists for some anchor pair *)
Theorem C03_unanchored : forall w ic G P, wfb G = true -> wfb P = true ->
  has_syms G -> has_syms P ->
  (forall i, In i (nodes G) <-> 0 <= i < Z.of_nat (List.length G)) ->
  (exists a pa f, Embedding w ic G a P pa f) ->
  map_subgraph_to_graph G P (mk_mapper w ic []) = Ok true.
Proof. exact (fun w ic => C03_unanchored_thm w ic (permute_spec_nil w ic)). Qed.

(* the fuel given to the search always suffices: no call ever returns the out-of-fuel value
   (any mapper, any graphs, any anchors) *)
Theorem C03_fuel : forall G P mp a pa,
  wfb P = true -> map_anchored_subgraph G P mp a pa <> OutOfFuel.
Proof. exact anchored_fuel_ok. Qed.

Theorem C03_fuel_unanchored : forall G P mp,
  wfb P = true -> map_subgraph_to_graph G P mp <> OutOfFuel.
Proof. exact map_subgraph_to_graph_fuel_ok. Qed.

(* the reference decision used by the harness check "spec3" is exact ... *)
Theorem C03_reference_exact : forall w ic G a P pa, wfb P = true ->
  (exists_embedding w ic G a P pa = true <-> exists f, Embedding w ic G a P pa f).
Proof. exact exists_embedding_exact. Qed.

(* ... so a passing check means: if an embedding exists, the implementation said True *)
Theorem C03_checker_sound : forall w ic G a P pa o, wfb P = true ->
  c03_anchored_okb w ic G a P pa o = true ->
  (exists f, Embedding w ic G a P pa f) -> exists pairs vis, o = Ok (true, pairs, vis).
Proof. exact c03_anchored_okb_sound. Qed.

(* Totality: on well-formed graphs whose nodes all carry a symbol the matcher returns [Ok _] -- no
   KeyError / IndexError value and no out-of-fuel value -- for EVERY mapper (can_map_to_nothing arbitrary) *)
Theorem C03_total_anchored : forall G P mp, wfb G = true -> wfb P = true -> has_syms G -> has_syms P ->
  forall a pa, In a (nodes G) -> In pa (nodes P) ->
  exists b pairs vis, map_anchored_subgraph G P mp a pa = Ok (b, pairs, vis).
Proof. exact map_anchored_subgraph_total. Qed.

Theorem C03_total_map_subgraph : forall G P mp, wfb G = true -> wfb P = true -> has_syms G -> has_syms P ->
  forall a spa, In a (nodes G) -> (forall pa, spa = Some pa -> In pa (nodes P)) ->
  exists rs, map_subgraph G P mp a spa = Ok rs.
Proof. exact map_subgraph_total. Qed.

(* map_subgraph_to_graph iterates range(len(graph)): host ids 0..n-1 *)
Theorem C03_total_unanchored : forall G P mp, wfb G = true -> wfb P = true -> has_syms G -> has_syms P ->
  (forall i, 0 <= i < Z.of_nat (List.length G) -> In i (nodes G)) ->
  exists b, map_subgraph_to_graph G P mp = Ok b.
Proof. exact map_subgraph_to_graph_total. Qed.

(* the same with the ids condition in the form "every id lies in 0..n-1" (equivalent on well-formed graphs) *)
Theorem C03_total_unanchored_contig : forall G P mp, wfb G = true -> wfb P = true -> has_syms G -> has_syms P ->
  (forall n, In n (nodes G) -> 0 <= n < Z.of_nat (List.length G)) ->
  exists b, map_subgraph_to_graph G P mp = Ok b.
Proof. exact map_subgraph_to_graph_total_contig. Qed.

(* modular forms: the same statements from the characterisation of permute alone *)
Theorem C03_from_spec : forall w ic, permute_spec_holds w ic ->
  forall G P, wfb G = true -> wfb P = true ->
  forall a pa f, has_syms G -> Embedding w ic G a P pa f ->
  exists pairs vis, map_anchored_subgraph G P (mk_mapper w ic []) a pa = Ok (true, pairs, vis).
Proof. exact C03_thm. Qed.

Theorem C03_permute_spec : forall w ic, permute_spec_holds w ic.
Proof. exact permute_spec_nil. Qed.

(** non-vacuity: oxetane C1COC1 (ids 0..3, O = 2) contains the ring pattern R1OC1?  no -- the
    three-ring does not embed into the four-ring; the chain ROR does. *)
Open Scope string_scope.
Definition ex_oxetane : graph :=
  [(0, (na_sym "C", [(1, Scalar 2); (3, Scalar 2)])); (1, (na_sym "C", [(0, Scalar 2); (2, Scalar 2)]));
   (2, (na_sym "O", [(1, Scalar 2); (3, Scalar 2)])); (3, (na_sym "C", [(2, Scalar 2); (0, Scalar 2)]))].
Definition ex_ROR : graph :=
  [(0, (na_sym "R", [(1, Scalar 2)])); (1, (na_sym "O", [(0, Scalar 2); (2, Scalar 2)]));
   (2, (na_sym "R", [(1, Scalar 2)]))].
Definition ex_epoxide : graph :=
  [(0, (na_sym "C", [(1, Scalar 2); (2, Scalar 2)])); (1, (na_sym "O", [(0, Scalar 2); (2, Scalar 2)]));
   (2, (na_sym "C", [(1, Scalar 2); (0, Scalar 2)]))].

Example C03_example_hypotheses :
  wfb ex_oxetane = true /\ wfb ex_ROR = true /\ has_symsb ex_oxetane = true /\
  exists f, Embedding (Some "R") true ex_oxetane 2 ex_ROR 1 f.
Proof.
  repeat split; try (vm_compute; reflexivity).
  apply exists_embedding_sound. vm_compute. reflexivity.
Qed.

Example C03_example_result :
  map_anchored_subgraph ex_oxetane ex_ROR (mk_mapper (Some "R") true []) 2 1
  = Ok (true, [(2, 1); (1, 0); (3, 2)], ([3; 1; 2], [1; 0; 2])).
Proof. vm_compute. reflexivity. Qed.

(* the three-ring does not embed into the four-ring, and the matcher says so (a D7 witness) *)
Example C03_example_no_embedding :
  exists_embedding (Some "R") true ex_oxetane 2 ex_epoxide 1 = false /\
  out_true (map_anchored_subgraph ex_oxetane ex_epoxide (mk_mapper (Some "R") true []) 2 1) = false.
Proof. split; vm_compute; reflexivity. Qed.

Print Assumptions C03.
Print Assumptions C03_unanchored.
Print Assumptions C03_fuel.
Print Assumptions C03_fuel_unanchored.
Print Assumptions C03_reference_exact.
Print Assumptions C03_checker_sound.
Print Assumptions C03_from_spec.
Print Assumptions C03_permute_spec.
Print Assumptions C03_total_anchored.
Print Assumptions C03_total_map_subgraph.
Print Assumptions C03_total_unanchored.
Print Assumptions C03_total_unanchored_contig.
