(** C12 -- hydrogen completion only adds hydrogens, fills valence, and is idempotent.
    This file holds only the property theorems; proofs live in Proofs/HydrogensProofs.v.
    Model: Model/Hydrogens.v (with Gen/Tables.v regenerated from the Python source).
    Vocabulary: Spec/HydrogensSpec.v ([preserve], [new_nodes], [count], [tabulated], ...).
    All theorems hold for every well-formed graph, ANY node ids (no contiguity assumed). *)
From Coq Require Import ZArith List String.
Import ListNotations.
From FGV Require Import Base.Util Base.StrMap Base.Bond Base.NX Base.NXFacts Gen.Tables Spec.TablesRef
  Model.Hydrogens Spec.HydrogensSpec Spec.HydrogensCheck Proofs.HydrogensProofs.
Open Scope string_scope.
Open Scope Z_scope.

(** * the constants read from the source are the ones of the statement *)

(* valence_table (built from the source's valence_dict by the double loop, last write wins)
   maps EVERY string like the hand-written reference table does *)
Theorem valence_table_ok : forall s, slookup s valence_table = ref_valence s.
Proof. exact HydrogensProofs.valence_table_ok. Qed.

Theorem h_excluded_ok : h_excluded = ["R"; "H"].
Proof. exact HydrogensProofs.h_excluded_ok. Qed.

Theorem h_formula_ok : h_cap = 8 /\ h_factor = 2.
Proof. exact HydrogensProofs.h_formula_ok. Qed.

(** * totality *)

(* on graphs whose labels are plain bond orders the function returns normally ... *)
Theorem C12_total : forall g,
  wf g -> scalar_graph g -> exists g', add_implicit_hydrogens g = Some g'.
Proof. exact addh_total. Qed.

(* ... and in general it raises exactly when a tabulated atom carries a tuple/list label *)
Theorem C12_raises : forall g,
  wf g -> (add_implicit_hydrogens g = None <-> raises_expected g).
Proof. exact addh_raises_iff. Qed.

(** * only hydrogens are added *)

(* old nodes first and in their old order; attribute dicts of old nodes unchanged; the adjacency
   of an old node keeps its entries in order and only gets single bonds to non-old nodes appended;
   hence the bonds between old nodes are exactly the old ones *)
Theorem C12_preserve : forall g g',
  wf g -> add_implicit_hydrogens g = Some g' -> preserve g g'.
Proof. exact addh_preserve. Qed.

(* every new node: attribute dict {symbol: "H"}, exactly one neighbour, joined by a single bond,
   that neighbour is an old atom with tabulated symbol (not R, not H); its id exceeds every old id *)
Theorem C12_new_nodes : forall g g',
  wf g -> add_implicit_hydrogens g = Some g' -> new_nodes g g'.
Proof. exact addh_new_nodes. Qed.

(* ids in the result are pairwise distinct; new ids are greater than all old ids *)
Theorem C12_fresh : forall g g',
  wf g -> add_implicit_hydrogens g = Some g' ->
  NoDup (nodes g') /\
  forall h, has_node g' h = true -> has_node g h = false -> forall k, has_node g k = true -> k < h.
Proof. exact addh_fresh. Qed.

(* the result is again a well-formed graph (symmetric adjacency, no duplicate entries) *)
Theorem C12_wf : forall g g', wf g -> add_implicit_hydrogens g = Some g' -> wf g'.
Proof. exact addh_wf. Qed.

(** * the valence is filled *)

Theorem C12_count : forall g g',
  wf g -> add_implicit_hydrogens g = Some g' -> count g g'.
Proof. exact addh_count. Qed.

(* written out: valence minus the bond-order sum, rounded toward zero, never negative
   (bond orders in half units, v from the REFERENCE table) *)
Theorem C12_count_tabulated : forall g g' x s v,
  wf g -> add_implicit_hydrogens g = Some g' ->
  sym_of g x = Some s -> ~ In s ["R"; "H"] -> ref_valence s = Some v ->
  List.length (new_neighbors g g' x)
  = Z.to_nat (Z.quot (2 * (Z.min 8 (2 * v) - v) - bond_sum_half (adj g x)) 2).
Proof. exact addh_count_tabulated. Qed.

(* wildcards, hydrogens, untabulated symbols and atoms without symbol receive none *)
Theorem C12_count_none : forall g g' x,
  wf g -> add_implicit_hydrogens g = Some g' ->
  has_node g x = true -> ~ tabulated g x -> new_neighbors g g' x = [].
Proof. exact addh_count_none. Qed.

(** * idempotence: a second completion returns exactly the same graph *)

Theorem C12_idempotent : forall g g',
  wf g -> add_implicit_hydrogens g = Some g' -> add_implicit_hydrogens g' = Some g'.
Proof. exact addh_idempotent. Qed.

(** * the function in closed form (exact output, including all dict orders) *)

Theorem C12_closed_form : forall g,
  wf g -> add_implicit_hydrogens g = if labels_okb g then Some (closed g) else None.
Proof. exact addh_closed. Qed.

(** * the decidable checker the harness runs on every implementation output is sound *)

Theorem C12_checker_sound : forall g out,
  addh_okb g (Some out) = true -> addh_spec g out /\ ~ raises_expected g.
Proof. exact addh_okb_sound. Qed.

Theorem C12_checker_sound_raise : forall g,
  addh_okb g None = true -> raises_expected g.
Proof. exact addh_okb_sound_raise. Qed.

(* ... and complete: it accepts exactly the outputs that satisfy the specification *)
Theorem C12_checker_exact : forall g out,
  addh_okb g (Some out) = true <-> addh_spec g out /\ ~ raises_expected g.
Proof. exact addh_okb_exact. Qed.

(* so a correct implementation output is never rejected: the checker accepts the model's result *)
Theorem C12_checker_accepts_model : forall g,
  wf g -> addh_okb g (add_implicit_hydrogens g) = true.
Proof. exact addh_okb_model. Qed.

(** * non-vacuity *)

(* methanol parsed with idx_offset=1 (the D16 witness): C gets ids 3,4,5 and O gets 6 *)
Example C12_example :
  let g := [(1, (na_sym "C", [(2, Scalar 2)])); (2, (na_sym "O", [(1, Scalar 2)]))] in
  wfb g = true /\
  option_map (fun g' => (nodes g', adj g' 1, adj g' 2, adj g' 6, sym_of g' 6)) (add_implicit_hydrogens g)
  = Some ([1; 2; 3; 4; 5; 6],
          [(2, Scalar 2); (3, Scalar 2); (4, Scalar 2); (5, Scalar 2)],
          [(1, Scalar 2); (6, Scalar 2)],
          [(2, Scalar 2)], Some "H") /\
  addh_okb g (add_implicit_hydrogens g) = true.
Proof. vm_compute. repeat split. Qed.

(* sparse, unordered ids, an aromatic (1.5) and an over-valent atom, a wildcard *)
Example C12_example_sparse :
  let g := [(10, (na_sym "N", [(-4, Scalar 3)]));
            (-4, (na_sym "C", [(10, Scalar 3); (3, Scalar 6)]));
            (3, (na_sym "R", [(-4, Scalar 6)]))] in
  wfb g = true /\
  option_map nodes (add_implicit_hydrogens g) = Some [10; -4; 3; 11] /\
  option_map (fun g' => adj g' 10) (add_implicit_hydrogens g) = Some [(-4, Scalar 3); (11, Scalar 2)].
Proof. vm_compute. repeat split. Qed.

Print Assumptions valence_table_ok.
Print Assumptions h_excluded_ok.
Print Assumptions h_formula_ok.
Print Assumptions C12_total.
Print Assumptions C12_raises.
Print Assumptions C12_preserve.
Print Assumptions C12_new_nodes.
Print Assumptions C12_fresh.
Print Assumptions C12_wf.
Print Assumptions C12_count.
Print Assumptions C12_count_tabulated.
Print Assumptions C12_count_none.
Print Assumptions C12_idempotent.
Print Assumptions C12_closed_form.
Print Assumptions C12_checker_sound.
Print Assumptions C12_checker_sound_raise.
Print Assumptions C12_checker_exact.
Print Assumptions C12_checker_accepts_model.
