(** C04 -- a reported match is a genuine embedding of the whole pattern; a reported failure
    means there is none.  This file holds only the property theorems; proofs live in
    Proofs/Match*.v.  See Props/C03.v for the reading of [mk_mapper] and
    [permute_spec_holds]. *)
From Coq Require Import ZArith List String.
Import ListNotations.
From FGV Require Import Base.Util Base.Bond Base.NX Model.Permute Model.Match Spec.Embedding
  Spec.PermuteAssign Spec.MatchCheck Proofs.EmbeddingFacts Proofs.PermuteNil Proofs.MatchTheorems.
Open Scope Z_scope.

(* Success: the returned (host node, pattern node) pairs are the graph of a function defined
   on exactly the pattern's nodes ([covers]: no pattern node twice, no host node twice, every
   pattern node present), and that function is an Embedding: it contains the anchor pair,
   accepts every symbol pair, and sends every pattern bond -- ring-closing bonds included --
   onto a host bond with an equal label.  All hosts, connected patterns, all anchor pairs,
   all four wildcard / ignore_case settings. *)
Theorem C04_sound : forall w ic G P, wfb G = true -> wfb P = true ->
  forall a pa pairs vis, connected_from P pa ->
  map_anchored_subgraph G P (mk_mapper w ic []) a pa = Ok (true, pairs, vis) ->
  covers P pairs /\ Embedding w ic G a P pa (pair_fun pairs).
Proof. exact (fun w ic => C04_sound_thm w ic (permute_spec_nil w ic)). Qed.

(* the same in the form of the decidable test that the harness runs on implementation outputs *)
Theorem C04_sound_checker : forall w ic G P, wfb G = true -> wfb P = true ->
  forall a pa pairs vis, connected_from P pa ->
  map_anchored_subgraph G P (mk_mapper w ic []) a pa = Ok (true, pairs, vis) ->
  is_embedding w ic G a P pa pairs = true.
Proof. exact (fun w ic => C04_sound_checker_thm w ic (permute_spec_nil w ic)). Qed.

(* Failure: no embedding exists.  No acyclicity is needed for the repaired algorithm
   (the statement's "acyclic host and pattern" is the special case). *)
Theorem C04_exact : forall w ic G P, wfb G = true -> wfb P = true ->
  forall a pa pairs vis, has_syms G ->
  map_anchored_subgraph G P (mk_mapper w ic []) a pa = Ok (false, pairs, vis) ->
  ~ exists f, Embedding w ic G a P pa f.
Proof. exact (fun w ic => C04_exact_thm w ic (permute_spec_nil w ic)). Qed.

(* Any mapper (can_map_to_nothing arbitrary), any pattern: on success the pairs embed the
   part of the pattern they cover (PartialEmbedding: injective function containing the anchor
   pair, symbols accepted, every pattern bond between two covered nodes preserved), and every
   pattern neighbour of a covered node is covered or was mapped to nothing (it is in the
   visited set vp, which also contains the covered nodes). *)
Theorem C04_gen : forall G P mp w ic, m_wildcard mp = w -> m_ignore_case mp = ic ->
  wfb P = true -> wfb G = true ->
  forall a pa pairs vg vp,
  map_anchored_subgraph G P mp a pa = Ok (true, pairs, (vg, vp)) ->
  PartialEmbedding w ic G a P pa pairs /\
  (forall n p q, In (n, p) pairs -> In q (neighbors P p) -> In q vp) /\
  (forall p, In p (map snd pairs) -> In p vp).
Proof. exact (fun G P mp w ic Hw Hic HP HG => anchored_partial G P mp w ic Hw Hic HP HG (permute_sound mp)). Qed.

(* the decidable tests are exact *)
Theorem C04_is_embedding_sound : forall w ic G a P pa m,
  is_embedding w ic G a P pa m = true -> covers P m /\ Embedding w ic G a P pa (pair_fun m).
Proof. exact is_embedding_sound. Qed.

Theorem C04_checker_sound : forall w ic G a P pa b pairs vis, wfb P = true ->
  c04_anchored_okb w ic true G a P pa (Ok (b, pairs, vis)) = true ->
  (b = true -> covers P pairs /\ Embedding w ic G a P pa (pair_fun pairs)) /\
  (b = false -> ~ exists f, Embedding w ic G a P pa f).
Proof. exact c04_anchored_okb_sound. Qed.

(* ... and so is the test for the general statement, run on every anchored call *)
Theorem C04_partial_checker_sound : forall w ic G a P pa m vp,
  is_partial_embedding w ic G a P pa m vp = true ->
  PartialEmbedding w ic G a P pa m /\
  (forall n p q, In (n, p) m -> In q (neighbors P p) -> In q vp) /\
  (forall p, In p (map snd m) -> In p vp).
Proof. exact is_partial_embedding_sound. Qed.

(* modular forms: the same statements from the characterisation of permute alone *)
Theorem C04_sound_from_spec : forall w ic, permute_spec_holds w ic ->
  forall G P, wfb G = true -> wfb P = true ->
  forall a pa pairs vis, connected_from P pa ->
  map_anchored_subgraph G P (mk_mapper w ic []) a pa = Ok (true, pairs, vis) ->
  covers P pairs /\ Embedding w ic G a P pa (pair_fun pairs).
Proof. exact C04_sound_thm. Qed.

Theorem C04_exact_from_spec : forall w ic, permute_spec_holds w ic ->
  forall G P, wfb G = true -> wfb P = true ->
  forall a pa pairs vis, has_syms G ->
  map_anchored_subgraph G P (mk_mapper w ic []) a pa = Ok (false, pairs, vis) ->
  ~ exists f, Embedding w ic G a P pa f.
Proof. exact C04_exact_thm. Qed.

(** non-vacuity *)
Open Scope string_scope.
Definition ex_oxetane : graph :=
  [(0, (na_sym "C", [(1, Scalar 2); (3, Scalar 2)])); (1, (na_sym "C", [(0, Scalar 2); (2, Scalar 2)]));
   (2, (na_sym "O", [(1, Scalar 2); (3, Scalar 2)])); (3, (na_sym "C", [(2, Scalar 2); (0, Scalar 2)]))].
Definition ex_ring4 : graph :=      (* R1COC1, anchored on its oxygen (id 2) *)
  [(0, (na_sym "R", [(1, Scalar 2); (3, Scalar 2)])); (1, (na_sym "C", [(0, Scalar 2); (2, Scalar 2)]));
   (2, (na_sym "O", [(1, Scalar 2); (3, Scalar 2)])); (3, (na_sym "C", [(2, Scalar 2); (0, Scalar 2)]))].
Definition ex_pentane : graph :=
  [(0, (na_sym "C", [(1, Scalar 2)])); (1, (na_sym "C", [(0, Scalar 2); (2, Scalar 2)]));
   (2, (na_sym "C", [(1, Scalar 2); (3, Scalar 2)])); (3, (na_sym "C", [(2, Scalar 2); (4, Scalar 2)]));
   (4, (na_sym "C", [(3, Scalar 2)]))].
Definition ex_ring3 : graph :=
  [(0, (na_sym "C", [(1, Scalar 2); (2, Scalar 2)])); (1, (na_sym "C", [(0, Scalar 2); (2, Scalar 2)]));
   (2, (na_sym "C", [(1, Scalar 2); (0, Scalar 2)]))].

(* a ring pattern matched into a ring host: the ring-closing bond is part of the result *)
Example C04_example_success :
  map_anchored_subgraph ex_oxetane ex_ring4 (mk_mapper (Some "R") true []) 2 2
  = Ok (true, [(2, 2); (1, 1); (3, 3); (0, 0)], ([0; 3; 1; 2], [2; 1; 3; 0]))
  /\ is_embedding (Some "R") true ex_oxetane 2 ex_ring4 2 [(2, 2); (1, 1); (3, 3); (0, 0)] = true
  /\ wfb ex_oxetane = true /\ wfb ex_ring4 = true.
Proof. repeat split; vm_compute; reflexivity. Qed.

Example C04_example_connected : connected_from ex_ring4 2.
Proof.
  intros p Hp. simpl in Hp.
  assert (R2 : reach ex_ring4 2 2) by constructor.
  assert (R1 : reach ex_ring4 2 1) by (eapply reach_step; [exact R2 | simpl; auto]).
  assert (R3 : reach ex_ring4 2 3) by (eapply reach_step; [exact R2 | simpl; auto]).
  assert (R0 : reach ex_ring4 2 0) by (eapply reach_step; [exact R1 | simpl; auto]).
  destruct Hp as [<-|[<-|[<-|[<-|[]]]]]; assumption.
Qed.

(* the D7 witness: pentane does not contain a three-ring; the matcher reports failure and
   the reference decision agrees *)
Example C04_example_failure :
  out_false (map_anchored_subgraph ex_pentane ex_ring3 (mk_mapper (Some "R") true []) 2 0) = true
  /\ exists_embedding (Some "R") true ex_pentane 2 ex_ring3 0 = false
  /\ has_symsb ex_pentane = true.
Proof. repeat split; vm_compute; reflexivity. Qed.

Print Assumptions C04_sound.
Print Assumptions C04_sound_checker.
Print Assumptions C04_exact.
Print Assumptions C04_gen.
Print Assumptions C04_is_embedding_sound.
Print Assumptions C04_checker_sound.
Print Assumptions C04_partial_checker_sound.
Print Assumptions C04_sound_from_spec.
Print Assumptions C04_exact_from_spec.
