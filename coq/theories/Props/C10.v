(** C10 -- ITS round trips: splitting and re-superimposing lose nothing.
    This file holds only the property theorems; proofs live in Proofs/SplitProofs.v.
    The SMILES sentence of C10 (to_smiles / from_smiles) is validated at run time against
    RDKit as an oracle (harness/props/c10.py), it is not a theorem. *)
From Coq Require Import ZArith List String.
Import ListNotations.
From FGV Require Import Base.Util Base.Bond Base.NX Base.NXFacts Model.Aam Model.Its.
From FGV Require Import Spec.ItsSpec Spec.ItsCheck Proofs.ItsProofs Proofs.SplitProofs.
Open Scope Z_scope.

(* [split_spec its (g, h)] unfolds to: both halves keep every node with all its attributes
     forall n, node_attr g n = node_attr its n   (same for h)
   and where the ITS has a tuple (a, b) or a list [a, b] the left half has Scalar a iff a <> 0
   and the right half Scalar b iff b <> 0; scalar labels stay on both sides; no other edges:
     forall u v, edge_label g u v = obind (tr_side lab_fst) (edge_label its u v)
     forall u v, edge_label h u v = obind (tr_side lab_snd) (edge_label its u v) *)
Theorem C10_split_spec : forall its, wf its -> split_spec its (split_its its).
Proof. exact split_its_spec. Qed.

(* the node order is kept as well, and both halves are well-formed graphs *)
Theorem C10_split_nodes : forall its, wf its ->
  nodes (fst (split_its its)) = nodes its /\ nodes (snd (split_its its)) = nodes its.
Proof. exact split_its_nodes. Qed.

Theorem C10_split_wf : forall its, wf its -> wf (fst (split_its its)) /\ wf (snd (split_its its)).
Proof. exact split_its_wf. Qed.

(* re-superimposing: for an ITS whose nodes are named by their positive map number,
   get_its (split_its its) has the same node set, every node with its symbol, its map number
   and idx_map (n, n) (labels / is_labeled are not carried), and every edge with the label
   normalised by [norm_label]: (g, h) stays, [g, h] becomes (g, h), a scalar b becomes (b, b),
   (0, 0) disappears *)
Theorem C10_resuperimpose : forall its, wf its -> ids_are_aam its ->
  let its' := get_its (fst (split_its its)) (snd (split_its its)) in
  (forall n, node_attr its' n = option_map (fun a => its_node_attr (a_sym a) n (n, n)) (node_attr its n))
  /\ (forall u v, edge_label its' u v = obind norm_label (edge_label its u v)).
Proof. exact resuperimpose. Qed.

(* for an ITS as get_its makes it (tuple labels, never (0, 0)) every label comes back unchanged *)
Theorem C10_resuperimpose_exact : forall its, wf its -> ids_are_aam its -> its_labelled its ->
  forall u v, edge_label (get_its (fst (split_its its)) (snd (split_its its))) u v = edge_label its u v.
Proof. exact resuperimpose_exact. Qed.

(* superimposing then splitting a fully mapped reaction (same atoms on both sides, named by
   positive map number, no order-0 bonds) gives back exactly the bonds of G and of H; both
   halves carry G's symbol, the map number and idx_map (n, n) on every node *)
Theorem C10_split_after_its : forall G H, wf G -> wf H -> fully_mapped G H ->
  no_zero_bond G -> no_zero_bond H ->
  let gh := split_its (get_its G H) in
  (forall n, node_attr (fst gh) n = option_map (fun a => its_node_attr (a_sym a) n (n, n)) (node_attr G n))
  /\ (forall n, node_attr (snd gh) n = node_attr (fst gh) n)
  /\ (forall u v, edge_label (fst gh) u v = edge_label G u v)
  /\ (forall u v, edge_label (snd gh) u v = edge_label H u v).
Proof. exact split_after_its. Qed.

(* the same two round trips for ARBITRARY node ids (nothing assumed about ids or orders, only
   injective map numbers): the results are named by map number *)
Theorem C10_resuperimpose_by_aam : forall its, wf its -> aam_injective its ->
  let its' := get_its (fst (split_its its)) (snd (split_its its)) in
  (forall k a, node_attr its' k = Some a <->
               exists n, mapped its n k /\ a = its_node_attr (sym_of its n) k (n, n))
  /\ (forall n1 n2 k l, mapped its n1 k -> mapped its n2 l -> 0 < k -> 0 < l ->
        edge_label its' k l = obind norm_label (edge_label its n1 n2))
  /\ (forall k l lb, edge_label its' k l = Some lb ->
        exists n1 n2, mapped its n1 k /\ mapped its n2 l /\ 0 < k /\ 0 < l).
Proof. exact resuperimpose_by_aam. Qed.

Theorem C10_split_after_its_by_aam : forall G H,
  wf G -> wf H -> aam_injective G -> aam_injective H -> no_zero_bond G -> no_zero_bond H ->
  let gh := split_its (get_its G H) in
  (forall k, node_attr (fst gh) k = node_attr (get_its G H) k /\ node_attr (snd gh) k = node_attr (get_its G H) k)
  /\ (forall k l n1 n2 m1 m2,
        mapped G n1 k -> mapped G n2 l -> mapped H m1 k -> mapped H m2 l -> 0 < k -> 0 < l ->
        edge_label (fst gh) k l = edge_label G n1 n2 /\ edge_label (snd gh) k l = edge_label H m1 m2).
Proof. exact split_after_its_by_aam. Qed.

(* the decidable checkers run on the implementation's outputs are sound *)
Theorem C10_checker_sound : forall its gh, wf its -> split_okb its gh = true -> split_spec its gh.
Proof. exact split_okb_sound. Qed.

Theorem C10_resuperimpose_checker_sound : forall its out,
  wf its -> wf out -> resuperimpose_okb its out = true ->
  (forall n, node_attr out n = option_map (fun a => its_node_attr (a_sym a) n (n, n)) (node_attr its n))
  /\ (forall u v, edge_label out u v = obind norm_label (edge_label its u v)).
Proof. exact resuperimpose_okb_sound. Qed.

Theorem C10_split_after_its_checker_sound : forall G H g h,
  wf G -> wf H -> wf g -> wf h -> split_after_its_okb G H g h = true ->
  (forall n, node_attr g n = option_map (fun a => its_node_attr (a_sym a) n (n, n)) (node_attr G n))
  /\ (forall n, node_attr h n = node_attr g n)
  /\ (forall u v, edge_label g u v = edge_label G u v)
  /\ (forall u v, edge_label h u v = edge_label H u v).
Proof. exact split_after_its_okb_sound. Qed.

(* non-vacuity: ids not ascending, a tuple, a list, a scalar and a (0, h) label *)
Open Scope string_scope.
Definition exITS : graph :=
  [(3, (mkNA (Some "C") (Some 3) None None None, [(1, Pair 2 4); (2, LPair 0 2)]));
   (1, (mkNA (Some "O") (Some 1) None None None, [(3, Pair 2 4); (2, Scalar 3)]));
   (2, (mkNA (Some "N") (Some 2) None None None, [(3, LPair 0 2); (1, Scalar 3)]))].

Example C10_example_hyps : wf exITS /\ ids_are_aam exITS.
Proof.
  split; [apply wfb_wf|apply ids_are_aamb_sound]; vm_compute; reflexivity.
Qed.

Example C10_example :
  edge_label (fst (split_its exITS)) 3 1 = Some (Scalar 2)
  /\ edge_label (snd (split_its exITS)) 3 1 = Some (Scalar 4)
  /\ edge_label (fst (split_its exITS)) 3 2 = None
  /\ edge_label (snd (split_its exITS)) 2 3 = Some (Scalar 2)
  /\ edge_label (fst (split_its exITS)) 1 2 = Some (Scalar 3)
  /\ edge_label (get_its (fst (split_its exITS)) (snd (split_its exITS))) 2 3 = Some (Pair 0 2)
  /\ edge_label (get_its (fst (split_its exITS)) (snd (split_its exITS))) 1 2 = Some (Pair 3 3)
  /\ split_okb exITS (split_its exITS) = true
  /\ resuperimpose_okb exITS (get_its (fst (split_its exITS)) (snd (split_its exITS))) = true.
Proof. vm_compute. repeat split; reflexivity. Qed.

Print Assumptions C10_split_spec.
Print Assumptions C10_split_nodes.
Print Assumptions C10_split_wf.
Print Assumptions C10_resuperimpose.
Print Assumptions C10_resuperimpose_exact.
Print Assumptions C10_split_after_its.
Print Assumptions C10_resuperimpose_by_aam.
Print Assumptions C10_split_after_its_by_aam.
Print Assumptions C10_checker_sound.
Print Assumptions C10_resuperimpose_checker_sound.
Print Assumptions C10_split_after_its_checker_sound.
Print Assumptions C10_example_hyps.
Print Assumptions C10_example.
