(** C16 - applying a rule changes exactly its reaction centre, once per embedding.
    Only the property theorems (each proved by [exact] from Proofs/Rule*.v), examples and the
    assumption audit.

    Reading guide.  [g] reactant graph, [rcg] the rule's reaction-centre graph,
    [rule := reaction_rule rcg] (ReactionRule: l, r = split_its rc), [L := rl rule].
    ORACLES: [monos] is the list networkx' VF2 yields and [wls] the WL digests networkx computes
    for the candidate ITS graphs; the theorems hold for EVERY [monos] that is, up to the order of
    the list and the dict order inside each mapping, the reference enumeration [all_monos L g]
    ([monos_valid], checked on every harness case by the proved checker [vf2_okb]) and for EVERY
    digest list of the right length.  [all_monos] is proved exact. *)
From Coq Require Import ZArith List String Sorting.Permutation.
Import ListNotations.
From FGV Require Import Base.Util Base.Bond Base.NX Base.NXFacts Model.Aam Gen.RuleMap Model.Rule
                        Spec.AamSpec Spec.RuleSpec Spec.RuleCheck
                        Proofs.NXCopyFacts16 Proofs.RuleSplit Proofs.RuleIts Proofs.RuleLoop Proofs.RuleMonos
                        Proofs.RuleProofs Proofs.RuleCheckProofs Proofs.RuleGml Proofs.RuleConn.
Open Scope Z_scope.

(** * 1. The reference enumerator lists exactly the embeddings, each once *)

(* [embedding L g f]: f lists one pair (g node, L node) per L node, in L's node order; the g
   nodes are pairwise distinct nodes of g with the same symbol, and every L edge lies on a g
   edge with an equal label (monomorphism, not induced) *)
Theorem C16_all_monos_exact : forall L g f,
  NoDup (nodes L) -> (In f (all_monos L g) <-> embedding L g f).
Proof. exact all_monos_exact. Qed.

Theorem C16_all_monos_nodup : forall L g, NoDup (nodes g) -> NoDup (all_monos L g).
Proof. exact all_monos_NoDup. Qed.

(* the harness check "vf2" establishes the hypothesis of the theorems below *)
Theorem C16_vf2_check_sound : forall L g monos wls,
  NoDup (nodes g) -> vf2_okb L g monos wls = true ->
  monos_valid L g monos /\ List.length wls = List.length monos.
Proof. exact vf2_okb_sound. Qed.

(** * 2. ReactionRule: the two sides of the reaction-centre graph *)

Theorem C16_rule_left : forall rcg, wf rcg ->
  wf (rl (reaction_rule rcg)) /\ nodes (rl (reaction_rule rcg)) = nodes rcg
  /\ (forall n, node_attr (rl (reaction_rule rcg)) n = node_attr rcg n)
  /\ (forall a b, edge_label (rl (reaction_rule rcg)) a b = option_map Scalar (left_of rcg a b)).
Proof. exact rule_left_spec. Qed.

Theorem C16_rule_right : forall rcg, wf rcg ->
  wf (rr (reaction_rule rcg)) /\ nodes (rr (reaction_rule rcg)) = nodes rcg
  /\ (forall n, node_attr (rr (reaction_rule rcg)) n = node_attr rcg n)
  /\ (forall a b, edge_label (rr (reaction_rule rcg)) a b = option_map Scalar (right_of rcg a b)).
Proof. exact rule_right_spec. Qed.

(** * 3. apply_rule_spec: every returned ITS, pair by pair *)

(* No exception, and every returned graph is the ITS of one supplied embedding m:
   same nodes in the same order; attributes equal except the atom map, which is the
   completion (offset "min") of the reactant's; and on EVERY node pair {x, y} the label is
   [expected_label g rcg m x y]:  [g order, product order] where the product order is the rule's
   right order on images of rule edges (a pair bonded only on the rule's right gets a new
   [0, d] edge; a pair bonded only on its left gets [o, 0]) and the g order everywhere else -
   in particular on bonds between matched atoms that the rule does not mention (D17). *)
Theorem C16_apply_rule_spec : forall g rcg monos wls,
  wf g -> wf rcg -> monos_valid (rl (reaction_rule rcg)) g monos ->
  List.length wls = List.length monos ->
  forall n unique co results,
  (co = true -> g <> []) ->
  apply_rule g (reaction_rule rcg) monos wls n unique co = AROk results ->
  forall res, In res results ->
    exists m, In m monos /\ embedding_set (rl (reaction_rule rcg)) g m
              /\ res = its_graph g (reaction_rule rcg) m
              /\ wf res /\ result_ok g rcg m res.
Proof. exact apply_rule_results. Qed.

(* the call never raises on this domain; its value for every option combination *)
Theorem C16_apply_rule_value : forall g rcg monos wls,
  wf g -> wf rcg -> monos_valid (rl (reaction_rule rcg)) g monos ->
  List.length wls = List.length monos ->
  forall n unique co,
  (co = true -> g <> []) ->
  apply_rule g (reaction_rule rcg) monos wls n unique co =
  AROk (take_n n (select unique co (cands_of g (reaction_rule rcg) monos wls) [])).
Proof. exact apply_rule_general. Qed.

(* the single-mapping construction needs only an injective map defined on the rule's nodes *)
Theorem C16_its_of : forall g rcg m,
  wf g -> wf rcg -> inj_map rcg g m ->
  exists its, its_of g (reaction_rule rcg) m = Some its
    /\ wf its /\ nodes its = nodes g /\ (forall n, node_attr its n = node_attr g n)
    /\ (forall x y, edge_label its x y = expected_label g rcg m x y).
Proof. exact its_of_spec. Qed.

(* reading expected_label: unmentioned pairs are unchanged (D17) *)
Theorem C16_unmentioned_unchanged : forall g rcg m u v,
  rc_between rcg m u v = None ->
  expected_label g rcg m u v =
  match edge_label g u v with Some lb => Some (LPair (ord lb) (ord lb)) | None => None end.
Proof. exact expected_unmentioned. Qed.

Theorem C16_product_bond : forall g rcg m u v lab y,
  rc_between rcg m u v = Some lab -> lab_right lab = Some y ->
  expected_label g rcg m u v =
  Some (LPair (match edge_label g u v with Some lb => ord lb | None => 0 end) y).
Proof. exact expected_product_bond. Qed.

Theorem C16_broken_bond : forall g rcg m u v lab x,
  wf rcg -> embedding_set (rl (reaction_rule rcg)) g m ->
  rc_between rcg m u v = Some lab -> lab_right lab = None -> lab_left lab = Some x ->
  edge_label g u v = Some (Scalar x) /\ expected_label g rcg m u v = Some (LPair x 0).
Proof. exact expected_broken_bond. Qed.

(* ITS.split() of a result: the reactant side IS g (same nodes, every bond), the product side
   is g except on images of rule edges, where it carries the rule's product bond *)
Theorem C16_result_sides : forall g rcg m res,
  mol_graph g -> wf res -> result_ok g rcg m res ->
  let gl := fst (split_its res) in let gr := snd (split_its res) in
  nodes gl = nodes g /\ (forall x y, edge_label gl x y = edge_label g x y)
  /\ (forall n, node_attr gl n = node_attr res n)
  /\ nodes gr = nodes g /\ (forall x y, edge_label gr x y = product_label g rcg m x y)
  /\ (forall n, node_attr gr n = node_attr res n).
Proof. exact result_sides. Qed.

(** * 4. unique=False: exactly one result per embedding, in the order supplied *)

Theorem C16_unique_false : forall g rcg monos wls,
  wf g -> wf rcg -> monos_valid (rl (reaction_rule rcg)) g monos ->
  List.length wls = List.length monos ->
  apply_rule g (reaction_rule rcg) monos wls None false false =
  AROk (map (its_graph g (reaction_rule rcg)) monos).
Proof. exact unique_false_spec. Qed.

(** * 5. limit (after D18): the first n ACCEPTED results of the unlimited call *)

(* the code tests len(its_graphs) >= n when the next mapping arrives, i.e. it counts results
   that passed the connectivity filter and the duplicate test; n <= 0 returns [] *)
Theorem C16_limit : forall g rcg monos wls,
  wf g -> wf rcg -> monos_valid (rl (reaction_rule rcg)) g monos ->
  List.length wls = List.length monos ->
  forall k unique co,
  (co = true -> g <> []) ->
  exists full,
    apply_rule g (reaction_rule rcg) monos wls None unique co = AROk full
    /\ apply_rule g (reaction_rule rcg) monos wls (Some k) unique co = AROk (firstn (Z.to_nat k) full)
    /\ List.length (firstn (Z.to_nat k) full) = Nat.min (Z.to_nat k) (List.length full).
Proof. exact limit_spec. Qed.

(** * 6. unique=True: the first candidate of every digest class; connected_only: a filter *)

Theorem C16_unique_true : forall g rcg monos wls,
  wf g -> wf rcg -> monos_valid (rl (reaction_rule rcg)) g monos ->
  List.length wls = List.length monos ->
  apply_rule g (reaction_rule rcg) monos wls None true false =
  AROk (map snd (first_of_class (cands_of g (reaction_rule rcg) monos wls) [])).
Proof. exact unique_true_spec. Qed.

(* kept candidates have pairwise distinct digests, and every candidate's digest is the digest
   of a kept one: exactly one result per class the digest identifies *)
Theorem C16_one_per_class : forall cs seen,
  let kept := first_of_class cs seen in
  NoDup (map (fun c : cand => fst (fst c)) kept)
  /\ (forall c, In c kept -> In c cs /\ ~ In (fst (fst c)) seen)
  /\ (forall c, In c cs -> In (fst (fst c)) seen \/ In (fst (fst c)) (map (fun c : cand => fst (fst c)) kept)).
Proof. exact first_of_class_spec. Qed.

Theorem C16_connected_only : forall g rcg monos wls,
  wf g -> wf rcg -> monos_valid (rl (reaction_rule rcg)) g monos ->
  List.length wls = List.length monos ->
  forall n unique,
  g <> [] ->
  apply_rule g (reaction_rule rcg) monos wls n unique true =
  AROk (take_n n (select unique false
                    (filter (fun c : cand => connb (snd (fst c))) (cands_of g (reaction_rule rcg) monos wls)) [])).
Proof. exact connected_only_spec. Qed.

(* the modelled nx.is_connected decides connectedness: every node is reachable from the
   first one along edges *)
Theorem C16_is_connected_correct : forall x s e t,
  wf x -> x = (s, e) :: t ->
  (is_connected x = Some true <-> forall v, In v (nodes x) -> reachable x s v).
Proof. exact is_connected_correct. Qed.

(** * 7. GML *)

Theorem C16_bond_map : bond_map = ref_bond_map.
Proof. exact rule_bond_map_ok. Qed.

(* print_gml produces the line RECORDS (answers of the six classifier functions), not text: the
   regular expressions are outside the model; the harness checks on every well-formed case that
   the real functions give exactly these records on the printed text (check "lex") *)
Theorem C16_gml_roundtrip : forall d,
  desc_wfb ref_bond_map d = true ->
  exists rule, from_gml bond_map (print_gml d) = GOk (gd_id d, rule)
               /\ wf (rc rule) /\ rc_describes ref_bond_map d (rc rule).
Proof. exact gml_roundtrip. Qed.

(** * 8. The decidable checkers run on the implementation's outputs are sound *)

Theorem C16_match_sound : forall g rcg f res,
  wf g -> (forall u, In u (map fst f) -> In u (nodes g)) ->
  its_matchb g rcg f res = true -> wf res /\ result_ok g rcg f res.
Proof. exact its_matchb_sound. Qed.

(* unique=False: the accepted result list is one prescribed ITS per embedding of all_monos
   (a bijection without a limit; with a limit an injection of size min n total) *)
Theorem C16_spec_check_sound : forall g rcg,
  wf g -> wf rcg ->
  forall n co results tbl,
  apply_okb_with g rcg (all_monos (rl (reaction_rule rcg)) g)
                 (filter (spec_connb g rcg) (all_monos (rl (reaction_rule rcg)) g))
                 tbl (mkOpts n false co) (AROk results) = true ->
  exists fs rest,
    Permutation (fs ++ rest) (prescribed g rcg co)
    /\ Forall2 (matches g rcg) fs results
    /\ match n with
       | None => rest = []
       | Some k => List.length results = Nat.min (Z.to_nat k) (List.length (prescribed g rcg co))
       end.
Proof. exact apply_okb_sound_unique_false. Qed.

(* unique=True: every result is the prescribed ITS of a prescribed embedding, the digests
   networkx gave for these embeddings are pairwise distinct, without a limit every embedding's
   digest is represented, and the number of results is min n (number of digest classes) *)
Theorem C16_spec_check_sound_unique : forall g rcg,
  wf g -> wf rcg ->
  forall n co results tbl,
  apply_okb_with g rcg (all_monos (rl (reaction_rule rcg)) g)
                 (filter (spec_connb g rcg) (all_monos (rl (reaction_rule rcg)) g))
                 tbl (mkOpts n true co) (AROk results) = true ->
  exists ds cl,
    Forall2 (fun res d => exists f, In f (prescribed g rcg co) /\ matches g rcg f res
                                    /\ digest_of tbl f = Some d) results ds
    /\ NoDup ds
    /\ map (digest_of tbl) (prescribed g rcg co) = map Some cl
    /\ (n = None -> forall d, In d cl -> In d ds)
    /\ List.length results = limit_len n (List.length (distinct_strings cl [])).
Proof. exact apply_okb_sound_unique_true. Qed.

(** * Examples (non-vacuity) *)

Definition ex_C := na_sym "C"%string.
(* cyclopropane *)
Definition ex_cp : graph :=
  [(0, (ex_C, [(1, Scalar 2); (2, Scalar 2)])); (1, (ex_C, [(0, Scalar 2); (2, Scalar 2)]));
   (2, (ex_C, [(1, Scalar 2); (0, Scalar 2)]))].
(* the rule C<1,2>C<0,1>C *)
Definition ex_rc : graph :=
  [(0, (ex_C, [(1, Pair 2 4)])); (1, (ex_C, [(0, Pair 2 4); (2, Pair 0 2)])); (2, (ex_C, [(1, Pair 0 2)]))].

(* the reference enumeration satisfies the oracle hypothesis *)
Example C16_monos_valid_refl : forall L g, monos_valid L g (all_monos L g).
Proof. exact monos_valid_refl. Qed.

(* D17 witness: six embeddings; in each result the ring bond the rule does not mention keeps
   [1, 1] (= LPair 2 2), it is not deleted; the changed bond is [1, 2], the <0,1> rule edge
   lands on an existing bond and gives [1, 1] *)
Example C16_D17_cyclopropane :
  let rule := reaction_rule ex_rc in
  let monos := all_monos (rl rule) ex_cp in
  (wfb ex_cp, wfb ex_rc, List.length monos,
   match apply_rule ex_cp rule monos (map (fun _ => ""%string) monos) None false false with
   | AROk rs => map (fun r => (edge_label r 0 1, edge_label r 1 2, edge_label r 0 2)) rs
   | _ => []
   end)
  = (true, true, 6%nat,
     [(Some (LPair 2 4), Some (LPair 2 2), Some (LPair 2 2));
      (Some (LPair 2 2), Some (LPair 2 2), Some (LPair 2 4));
      (Some (LPair 2 4), Some (LPair 2 2), Some (LPair 2 2));
      (Some (LPair 2 2), Some (LPair 2 4), Some (LPair 2 2));
      (Some (LPair 2 2), Some (LPair 2 2), Some (LPair 2 4));
      (Some (LPair 2 2), Some (LPair 2 4), Some (LPair 2 2))]).
Proof. vm_compute. reflexivity. Qed.

(* D18 witness: n = 2 gives two results (atom maps completed to 1 2 3), n = 0 none *)
Example C16_D18_limit :
  let rule := reaction_rule ex_rc in
  let monos := all_monos (rl rule) ex_cp in
  let wls := map (fun _ => ""%string) monos in
  (match apply_rule ex_cp rule monos wls (Some 2) false true with
   | AROk rs => map (fun r => map (fun e => a_aam (fst (snd e))) r) rs | _ => [] end,
   apply_rule ex_cp rule monos wls (Some 0) false false,
   match apply_rule ex_cp rule monos wls None true false with AROk rs => List.length rs | _ => 99%nat end)
  = ([[Some 1; Some 2; Some 3]; [Some 1; Some 2; Some 3]], AROk [], 1%nat).
Proof. vm_compute. reflexivity. Qed.

(* a GML description and its reaction centre *)
Example C16_gml_example :
  let d := mkDesc "r1" [(1, "C"); (2, "O"); (3, "N")]%string [(1, 2, "-")]%string [(1, 3, "="); (2, 1, ":")]%string in
  (desc_wfb ref_bond_map d,
   match from_gml bond_map (print_gml d) with
   | GOk (nm, r) => Some (nm, edge_label (rc r) 1 2, edge_label (rc r) 3 1, edge_label (rc r) 2 3)
   | GErr _ => None
   end)
  = (true, Some ("r1"%string, Some (LPair 2 3), Some (LPair 0 4), None)).
Proof. vm_compute. reflexivity. Qed.

Print Assumptions C16_all_monos_exact.
Print Assumptions C16_all_monos_nodup.
Print Assumptions C16_vf2_check_sound.
Print Assumptions C16_rule_left.
Print Assumptions C16_rule_right.
Print Assumptions C16_apply_rule_spec.
Print Assumptions C16_apply_rule_value.
Print Assumptions C16_its_of.
Print Assumptions C16_unmentioned_unchanged.
Print Assumptions C16_product_bond.
Print Assumptions C16_broken_bond.
Print Assumptions C16_result_sides.
Print Assumptions C16_unique_false.
Print Assumptions C16_limit.
Print Assumptions C16_unique_true.
Print Assumptions C16_one_per_class.
Print Assumptions C16_connected_only.
Print Assumptions C16_is_connected_correct.
Print Assumptions C16_bond_map.
Print Assumptions C16_gml_roundtrip.
Print Assumptions C16_match_sound.
Print Assumptions C16_spec_check_sound.
Print Assumptions C16_spec_check_sound_unique.
Print Assumptions C16_monos_valid_refl.
Print Assumptions C16_D17_cyclopropane.
Print Assumptions C16_D18_limit.
Print Assumptions C16_gml_example.

(** * Additions: the empty reactant, and sub-list relations between option combinations *)
From FGV Require Import Proofs.RuleExtra.

(* companion of C16_apply_rule_value for g = [] with connected_only=True: the rule's left side
   embeds into the empty graph iff the rule graph is empty (the empty mapping); the call then
   reaches nx.is_connected on the null graph and raises NetworkXPointlessConcept (ARNullGraph),
   unless a limit n <= 0 stops the loop first; for a non-empty rule the result is [] *)
Theorem C16_empty_reactant : forall rcg monos wls n unique,
  wf rcg -> monos_valid (rl (reaction_rule rcg)) [] monos -> List.length wls = List.length monos ->
  (all_monos (rl (reaction_rule rcg)) [] <> [] <-> rcg = [])
  /\ apply_rule [] (reaction_rule rcg) monos wls n unique true =
     match rcg with
     | [] => match n with
             | Some k => if k <=? 0 then AROk [] else ARNullGraph
             | None => ARNullGraph
             end
     | _ :: _ => AROk []
     end.
Proof. exact empty_reactant. Qed.

(* [sublist l1 l2]: l1 is obtained from l2 by deleting elements (same relative order).
   unique=True, with any limit, returns a sub-list of what unique=False returns without a limit,
   for the same monos / digests / connected_only. (With the same limit n on both sides the
   statement would be false: the k-th kept result can lie beyond position n of the longer list.) *)
Theorem C16_unique_sublist : forall g rcg monos wls,
  wf g -> wf rcg -> monos_valid (rl (reaction_rule rcg)) g monos ->
  List.length wls = List.length monos ->
  forall n co,
  (co = true -> g <> []) ->
  exists ru rf,
    apply_rule g (reaction_rule rcg) monos wls n true co = AROk ru
    /\ apply_rule g (reaction_rule rcg) monos wls None false co = AROk rf
    /\ sublist ru rf.
Proof. exact unique_sublist. Qed.

(* connected_only (unique=False, any limit) returns a sub-list of the one-result-per-embedding
   list, and without a limit exactly the results whose raw ITS graph is connected *)
Theorem C16_connected_sublist : forall g rcg monos wls,
  wf g -> wf rcg -> monos_valid (rl (reaction_rule rcg)) g monos ->
  List.length wls = List.length monos ->
  forall n,
  g <> [] ->
  exists rc rall,
    apply_rule g (reaction_rule rcg) monos wls n false true = AROk rc
    /\ apply_rule g (reaction_rule rcg) monos wls None false false = AROk rall
    /\ rall = map (its_graph g (reaction_rule rcg)) monos
    /\ sublist rc rall
    /\ (n = None ->
        rc = map snd (filter (fun c : cand => connb (snd (fst c))) (cands_of g (reaction_rule rcg) monos wls))).
Proof. exact connected_sublist. Qed.

Print Assumptions C16_empty_reactant.
Print Assumptions C16_unique_sublist.
Print Assumptions C16_connected_sublist.
