(** C19 -- the RDKit bridge is lossless for atoms, bonds, orders and atom maps; labelled
    placeholder nodes are refused; structural comparison is invariant under renumbering.
    This file holds only the property theorems; proofs live in Proofs/. *)
From Coq Require Import ZArith List String Sorting.Permutation.
Import ListNotations.
From FGV Require Import Base.Util Base.Bond Base.NX Base.NXFacts Gen.RdkitMaps
  Model.Rdkit Model.Wl Spec.RdkitRef Spec.RdkitSpec Spec.RdkitCheck Spec.WlSpec
  Proofs.RdkitTables Proofs.RdkitProofs Proofs.RdkitCheckProofs Proofs.WlProofs.

(** * tables *)

(* the tables regenerated from fgutils/rdkit.py are the reference tables of the specification *)
Theorem C19_rdkit_maps_ok :
  g2m_bond_map = ref_g2m_bond_map /\ m2g_bond_map = ref_m2g_bond_map
  /\ default_bond = ref_default_bond /\ sym_map = ref_sym_map.
Proof. exact rdkit_maps_ok. Qed.

(* every supported order 1, 1.5, 2, 3, 4 (half units) is written as a bond type that reads back
   as the same order *)
Theorem C19_bond_maps_inverse : forall o,
  In o supported_orders -> exists t, to_type (Scalar o) = Ok t /\ to_order t = o.
Proof. exact bond_maps_inverse. Qed.

(* ... and graph_to_mol accepts no other label *)
Theorem C19_to_type_supported : forall l t,
  to_type l = Ok t -> supported_label l = true /\ exists o, l = Scalar o /\ to_order t = o.
Proof. exact to_type_supported. Qed.

(** * round trip *)

(* For every well-formed graph over symbols Chem.Atom accepts (after normalisation), with supported
   scalar orders, without self loops and labelled nodes, any node ids and any map numbers that fit a
   C int, and for EVERY behaviour [ca] of Chem.Atom: mol_to_graph(graph_to_mol(g, ignore_aam)) returns
   a graph g' whose nodes are 0..n-1 in g's node order, the i-th carrying exactly the normalised
   symbol of the i-th node and its map number iff that is >= 1 (and maps are not ignored); atoms i, j
   are bonded iff nodes i, j are, with the same order; there are no other edges; g' is well formed. *)
Theorem C19_bridge_roundtrip : forall ca ignore_aam g,
  wf g -> bridge_domain ca ignore_aam g ->
  exists g', bridge ca g ignore_aam = Ok g' /\ roundtrip_spec ignore_aam g g' /\ wf g'.
Proof. exact bridge_roundtrip. Qed.

(** * refusal *)

(* exactly: ValueError is the result iff the first node (in node order) that raises anything is a
   labelled node that has a symbol and a label list; no later stage raises ValueError *)
Theorem C19_bridge_refuses_exact : forall ca ignore_aam g,
  bridge ca g ignore_aam = Err ValueError <->
  exists g1 n a ad g2, g = g1 ++ (n, (a, ad)) :: g2
    /\ Forall (fun x => node_err ca ignore_aam (fst (snd x)) = None) g1
    /\ a_sym a <> None /\ labelled a /\ a_labels a <> None.
Proof. exact bridge_refuses_exact. Qed.

(* on graphs whose nodes are atoms or parser-style placeholders: refused iff some node is labelled *)
Theorem C19_bridge_refuses_labels : forall ca ignore_aam g,
  refusal_domain ca ignore_aam g ->
  (bridge ca g ignore_aam = Err ValueError <-> exists n a ad, In (n, (a, ad)) g /\ labelled a).
Proof. exact bridge_refuses_labels. Qed.

(** * the checker run on the implementation's outputs is sound *)

Theorem C19_checker_sound_roundtrip : forall g ignore_aam out,
  molecularb ignore_aam g = true -> bridge_okb g ignore_aam out = true ->
  exists g', out = Ok g' /\ roundtrip_spec ignore_aam g g' /\ wf g'.
Proof. exact bridge_okb_sound_roundtrip. Qed.

Theorem C19_checker_domain : forall ignore_aam g,
  molecularb ignore_aam g = true -> wf g /\ bridge_domain chem_atom ignore_aam g.
Proof. exact molecularb_sound. Qed.

Theorem C19_checker_sound_refusal : forall g ignore_aam (out : res graph),
  refusal_domainb ignore_aam g = true -> (exists n a ad, In (n, (a, ad)) g /\ labelled a) ->
  bridge_okb g ignore_aam out = true -> out = Err ValueError.
Proof. exact bridge_okb_sound_refusal. Qed.

(** * structural comparison *)

(* for ANY digest function H: graphs equal up to a renaming of node ids and any reordering of the
   node and adjacency dicts have the same WL hash (any iteration count) *)
Theorem C19_wl_invariant : forall (H : string -> string) g g' iterations,
  isomorphic g g' -> wl_hash H g iterations = wl_hash H g' iterations.
Proof. exact wl_invariant. Qed.

Theorem C19_mol_compare_invariant : forall (H : string -> string) cands cands' target target',
  Forall2 isomorphic cands cands' -> isomorphic target target' ->
  mol_compare H cands target = mol_compare H cands' target'.
Proof. exact mol_compare_invariant. Qed.

(* in particular a renumbered / reordered copy of the target compares equal to it *)
Theorem C19_mol_compare_copy : forall (H : string -> string) g g' h,
  isomorphic g g' -> wl_hash H g 3 = Ok h -> mol_compare H [g'] g = Ok [true].
Proof. exact mol_compare_copy. Qed.

(* the model's dict default for node_labels[...] is unreachable: at every iteration the label dict
   covers every node of a well-formed graph and every neighbour of a node *)
Theorem C19_wl_lookups_total : forall (H : string -> string) g l0,
  wf g -> init_labels (nodes_data g) = Some l0 ->
  forall k, labels_cover g (Nat.iter k (wl_step H g) l0).
Proof. exact wl_lookups_total. Qed.

(** * non-vacuity *)

Local Open Scope string_scope.
Local Open Scope Z_scope.

(* n(:C)$Sn with ids 7, -2, 4, map numbers 0 / -1 / 1, node order 7, -2, 4 *)
Definition ex_g : graph :=
  [(7, (mkNA (Some "n") (Some 0) None None None, [(4, Scalar 3)]));
   (-2, (mkNA (Some "Sn") (Some (-1)) (Some []) (Some false) None, [(4, Scalar 8)]));
   (4, (mkNA (Some "C") (Some 1) None None None, [(7, Scalar 3); (-2, Scalar 8)]))].

Example C19_example_domain : wf ex_g /\ bridge_domain chem_atom false ex_g.
Proof. apply molecularb_sound. vm_compute. reflexivity. Qed.

Example C19_example_roundtrip :
  bridge chem_atom ex_g false =
  Ok [(0, (mkNA (Some "N") None None None None, [(2, Scalar 3)]));
      (1, (mkNA (Some "Sn") None None None None, [(2, Scalar 8)]));
      (2, (mkNA (Some "C") (Some 1) None None None, [(0, Scalar 3); (1, Scalar 8)]))].
Proof. vm_compute. reflexivity. Qed.

Example C19_example_refusal :
  bridge chem_atom
    [(0, (mkNA (Some "C") None (Some []) (Some false) None, [(1, Scalar 2)]));
     (1, (mkNA (Some "#") None (Some ["g"]) (Some true) None, [(0, Scalar 2)]))] false
  = Err ValueError.
Proof. vm_compute. reflexivity. Qed.

(* C-O with ids 5, 7 and O-C with ids 1, 0: the same molecule renumbered and reordered *)
Definition ex_a : graph :=
  [(5, (na_sym "C", [(7, Scalar 2)])); (7, (na_sym "O", [(5, Scalar 2)]))].
Definition ex_b : graph :=
  [(1, (mkNA (Some "O") (Some 9) None None None, [(0, Scalar 2)])); (0, (na_sym "C", [(1, Scalar 2)]))].

Example C19_example_iso : isomorphic ex_a ex_b.
Proof.
  exists (fun u => if u =? 5 then 0 else 1). split; [apply wfb_wf; vm_compute; reflexivity|].
  split; [apply wfb_wf; vm_compute; reflexivity|]. split; [apply perm_swap|]. split.
  - intros u [<-|[<-|[]]]; vm_compute; reflexivity.
  - intros u v [<-|[<-|[]]] [<-|[<-|[]]]; vm_compute; reflexivity.
Qed.

Example C19_example_compare :
  mol_compare wrap_digest [ex_b; ex_a; [(3, (na_sym "C", []))]] ex_a = Ok [true; true; false].
Proof. vm_compute. reflexivity. Qed.

Print Assumptions C19_rdkit_maps_ok.
Print Assumptions C19_bond_maps_inverse.
Print Assumptions C19_to_type_supported.
Print Assumptions C19_bridge_roundtrip.
Print Assumptions C19_bridge_refuses_exact.
Print Assumptions C19_bridge_refuses_labels.
Print Assumptions C19_checker_sound_roundtrip.
Print Assumptions C19_checker_domain.
Print Assumptions C19_checker_sound_refusal.
Print Assumptions C19_wl_invariant.
Print Assumptions C19_mol_compare_invariant.
Print Assumptions C19_mol_compare_copy.
Print Assumptions C19_wl_lookups_total.
