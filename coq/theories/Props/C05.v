(** C05 -- functional-group query results are justified, most specific and covering.
    This file holds only the property theorems; proofs live in Proofs/{QueryModelFacts,QueryProofs}.v.

    Model: Model/Query.v (is_functional_group, __find_best_node_rec, __get_functional_groups of
    fgutils/query.py) over Model/FGTree.v, Model/Match.v, Model/Hydrogens.v.

    The theorems are parameterised by facts about the two components other teams own; they appear
    as explicit premises (Spec/QuerySpec.v):
      MatcherComplete w ic  =  Props/C03.v, theorem C03        (an embedding makes the anchored matcher succeed)
      MatcherSound w ic     =  Props/C04.v, theorem C04_sound  (a success returns the pairs of an embedding)
      HydWf, HydFresh       =  Props/C12.v, C12_wf, C12_fresh  (completion keeps well-formedness; new ids exceed all old ids)
      HydSyms               =  consequence of C12_preserve + C12_new_nodes (every node still has a symbol)
    [mk_mapper w ic []] is PermutationMapper(wildcard=w, ignore_case=ic); the default is w = "R", ic = True. *)
From Coq Require Import ZArith List Bool String Sorted Permutation.
Import ListNotations.
From FGV Require Import Base.Util Base.Bond Base.NX Base.NXFacts Model.Permute Model.Match Model.Hydrogens
                        Model.FGTree Model.FGDefaultCfg Model.Query
                        Spec.Embedding Spec.FGCheck Spec.FGSpec Spec.QuerySpec
                        Spec.EmbSearch Proofs.FGDefaultTree Proofs.QueryModelFacts Proofs.QueryProofs
                        Proofs.EmbSearchProofs Proofs.QueryCheckProofs Proofs.DescendantWitness Proofs.QueryClosed.

(* C05 (justified / ids / child clause / covering), for any configuration list whose patterns and
   anti-patterns are non-empty, well-formed and connected (cfg_ok), any molecule that is a
   well-formed graph in which every node has a symbol, any node ids, both settings of
   require_implicit_hydrogen.  Whenever the query returns a list r (it may also raise):
   the tree was built; with G = the hydrogen-completed molecule (or the molecule itself) and
   max_id = the largest id of the molecule as given, EVERY entry (name, atoms) of r
     - names a configured group (node i of the tree, whose configuration is in the list),
     - has an anchoring atom a in atoms that is not C / H,
     - is witnessed: the pattern embeds into G with a group atom on a, and atoms is exactly the
       set of images of group atoms that are <= max_id; no anti-pattern embeds with a node on a,
     - no CHILD of node i is witnessed on a,
     - atoms is strictly increasing and consists of atoms of the molecule as given
       (never of hydrogens added internally);
   and r is COVERING: every non-C/H atom on which some root is witnessed occurs in an entry. *)
Theorem C05_justified : forall w ic,
  MatcherComplete w ic -> MatcherSound w ic -> HydWf -> HydFresh -> HydSyms ->
  forall cfgs req_h g r,
  wfb g = true -> has_syms g -> (forall c, In c cfgs -> cfg_ok c) ->
  query (mk_mapper w ic []) cfgs req_h g = Good r ->
  exists tr, build_config_tree_from_list (mk_mapper w ic []) cfgs = Good tr /\
             (forall i nd, nth_error (t_nodes tr) i = Some nd -> In (n_cfg nd) cfgs) /\
             C05_statement w ic tr req_h g r.
Proof. exact query_justified_configs. Qed.

(* the same for an object that already holds its tree (any tree whose configurations are cfg_ok) *)
Theorem C05_justified_tree : forall w ic,
  MatcherComplete w ic -> MatcherSound w ic -> HydWf -> HydFresh -> HydSyms ->
  forall tr req_h g r,
  wfb g = true -> has_syms g ->
  (forall i nd, nth_error (t_nodes tr) i = Some nd -> cfg_ok (n_cfg nd)) ->
  get_functional_groups_with (mk_mapper w ic []) tr req_h g = Good r ->
  C05_statement w ic tr req_h g r.
Proof. exact query_justified. Qed.

(* C05_descendant: the statement's "no more specific group" (no DESCENDANT witnessed) follows from
   the child clause under the explicit hypothesis that witnesses propagate upwards along some
   path (witness_path_closed).  Without it the clause is decided per input by the checker C05_okb
   (full descendant clause) that the harness runs on every implementation output. *)
Theorem C05_descendant : forall w ic tr g G max_id e,
  entry_justified w ic tr g G max_id e ->
  (forall a, witness_path_closed w ic tr G a) ->
  entry_most_specific w ic tr G e.
Proof. exact descendant_clause. Qed.

(* C05_descendant_refuted: WITHOUT that hypothesis the descendant form is false for user-supplied
   configurations in which an intermediate group does not list the anchoring atom among its
   group_atoms.  Witness (model = implementation, corpus case "corpus-descendant"): groups carbonyl
   C=O, acyl RC=O with group_atoms [1], ketone RC(R)=O with group_atoms [1, 3]; for acetone the answer
   is [("carbonyl", [1, 2])]: the child clause holds (acyl is not witnessed on the oxygen), but ketone,
   a descendant of carbonyl, is witnessed on the oxygen.  For the default configuration no such
   molecule was found (the full clause is checked on every explored output). *)
Theorem C05_descendant_refuted :
  query default_mapper wit_cfgs false acetone = Good [("carbonyl"%string, [1; 2]%Z)]
  /\ res_map tree_view (build_config_tree_from_list default_mapper wit_cfgs)
     = Good (["carbonyl"%string],
             [("carbonyl"%string, (["acyl"%string], [])); ("acyl"%string, (["ketone"%string], ["carbonyl"%string]));
              ("ketone"%string, ([], ["acyl"%string]))])
  /\ C05_child_okb default_mapper wit_cfgs false acetone (Good [("carbonyl"%string, [1; 2]%Z)]) = true
  /\ C05_okb default_mapper wit_cfgs false acetone (Good [("carbonyl"%string, [1; 2]%Z)]) = false
  /\ witnessedb (Some "R"%string) true acetone
       (fgconfig_init "ketone" "RC(R)=O" wit_RCRO (Some [1; 3]%Z) [] None ["R"%string]) 2 = true
  /\ witnessedb (Some "R"%string) true acetone
       (fgconfig_init "acyl" "RC=O" wit_RCO (Some [1]%Z) [] None ["R"%string]) 2 = false.
Proof. exact descendant_witness. Qed.

(* the input class of the known finding KF-C05-descendant is decided by the kernel
   (kf_descendant_classb, Spec/QuerySpec.v): the witness configuration is inside (in both forms),
   the default configuration is outside *)
Theorem C05_witness_in_finding_class :
  match build_config_tree_from_list default_mapper wit_cfgs with
  | Good tr => partial_group_atoms_classb (Some "R"%string) true tr && path_open_classb (Some "R"%string) true tr
  | Bad _ => false
  end = true.
Proof. exact witness_in_class. Qed.

Theorem C05_default_outside_finding_class :
  kf_descendant_classb (Some "R"%string) true default_tree_val = false.
Proof. exact default_outside_class. Qed.

(* the single group decision against the declarative notions *)
Theorem C05_is_functional_group_true : forall w ic,
  MatcherComplete w ic -> MatcherSound w ic ->
  forall G a c mx, wfb G = true -> has_syms G -> cfg_ok c -> (a <= mx)%Z ->
  forall idx, is_functional_group (mk_mapper w ic []) G a c (Some mx) = Good (true, idx) ->
  PatternOnWith w ic G mx c a idx /\ ~ AntiOn w ic G c a /\ StronglySorted Z.lt idx /\ In a idx /\
  (forall x, In x idx -> In x (nodes G) /\ (x <= mx)%Z).
Proof. exact ifg_true_sem. Qed.

Theorem C05_is_functional_group_false : forall w ic,
  MatcherComplete w ic -> MatcherSound w ic ->
  forall G a c mx, wfb G = true -> has_syms G -> cfg_ok c -> (a <= mx)%Z ->
  forall idx, is_functional_group (mk_mapper w ic []) G a c (Some mx) = Good (false, idx) ->
  ~ Witnessed w ic G c a.
Proof. exact ifg_false_sem. Qed.

(** * Premise-free forms

    The five premises are theorems of the merged development (Proofs/QueryClosed.v: matcher_complete =
    C03, matcher_sound = C04_sound, hyd_wf = C12_wf, hyd_fresh = C12_fresh, hyd_syms from
    C12_preserve + C12_new_nodes), so the C05 theorems hold outright, for every wildcard / ignore_case
    setting of a mapper without can_map_to_nothing. *)
Theorem C05_premises : forall w ic,
  MatcherComplete w ic /\ MatcherSound w ic /\ HydWf /\ HydFresh /\ HydSyms.
Proof. exact (fun w ic => conj (matcher_complete w ic) (conj (matcher_sound w ic) (conj hyd_wf (conj hyd_fresh hyd_syms)))). Qed.

Theorem C05_justified_closed : forall w ic cfgs req_h g r,
  wfb g = true -> has_syms g -> (forall c, In c cfgs -> cfg_ok c) ->
  query (mk_mapper w ic []) cfgs req_h g = Good r ->
  exists tr, build_config_tree_from_list (mk_mapper w ic []) cfgs = Good tr /\
             (forall i nd, nth_error (t_nodes tr) i = Some nd -> In (n_cfg nd) cfgs) /\
             C05_statement w ic tr req_h g r.
Proof. exact query_justified_configs_closed. Qed.

Theorem C05_justified_tree_closed : forall w ic tr req_h g r,
  wfb g = true -> has_syms g ->
  (forall i nd, nth_error (t_nodes tr) i = Some nd -> cfg_ok (n_cfg nd)) ->
  get_functional_groups_with (mk_mapper w ic []) tr req_h g = Good r ->
  C05_statement w ic tr req_h g r.
Proof. exact query_justified_closed. Qed.

Theorem C05_is_functional_group_true_closed : forall w ic G a c mx,
  wfb G = true -> has_syms G -> cfg_ok c -> (a <= mx)%Z ->
  forall idx, is_functional_group (mk_mapper w ic []) G a c (Some mx) = Good (true, idx) ->
  PatternOnWith w ic G mx c a idx /\ ~ AntiOn w ic G c a /\ StronglySorted Z.lt idx /\ In a idx /\
  (forall x, In x idx -> In x (nodes G) /\ (x <= mx)%Z).
Proof. exact ifg_true_closed. Qed.

Theorem C05_is_functional_group_false_closed : forall w ic G a c mx,
  wfb G = true -> has_syms G -> cfg_ok c -> (a <= mx)%Z ->
  forall idx, is_functional_group (mk_mapper w ic []) G a c (Some mx) = Good (false, idx) ->
  ~ Witnessed w ic G c a.
Proof. exact ifg_false_closed. Qed.

(** * The checker run on every implementation output *)

(* the reference search behind "witnessed" is exact with respect to is_embedding (Spec/Embedding.v;
   the matcher team proves is_embedding <-> Embedding as C04_is_embedding_sound and
   EmbeddingFacts.is_embedding_complete): it answers true exactly when some pair list with pa on a
   passes is_embedding and the extra test *)
Theorem C05_reference_exact : forall w ic G P extra a pa,
  NoDup (nodes P) ->
  (forall m m', Permutation m m' -> is_embedding w ic G a P pa m = true -> extra m = extra m') ->
  (anchored_embb w ic G P extra a pa = true <->
   exists m, is_embedding w ic G a P pa m = true /\ extra m = true).
Proof. exact anchored_embb_exact. Qed.

(* C05_okb / C05_child_okb accepted an output r of the implementation (tree tr, molecule g in which
   every node has a symbol): every entry names a node of the tree, its atoms are strictly increasing
   atoms of g, it has a non-C/H anchoring atom a on which the group is witnessed by an is_embedding
   pair list whose listed atoms are exactly the entry's atoms, no anti-pattern is witnessed on a, and
   NO DESCENDANT (full = true) / no child (full = false) of the node is witnessed on a; every
   candidate atom on which a root is witnessed occurs in an entry *)
Theorem C05_checker_sound : forall full mp tr req_h g r,
  (forall i nd, nth_error (t_nodes tr) i = Some nd -> cfg_nodup (n_cfg nd)) ->
  has_symsb g = true ->
  C05_tree_okb full mp (Good tr) req_h g (Good r) = true ->
  (nodes g = [] /\ r = [] /\ req_h = false) \/
  exists G max_id,
    (if req_h then add_implicit_hydrogens g = Some G else G = g) /\
    In max_id (nodes g) /\ (forall x, In x (nodes g) -> (x <= max_id)%Z) /\
    (forall e, In e r ->
       exists i nd a,
         nth_error (t_nodes tr) i = Some nd /\ fst e = fg_name (n_cfg nd) /\
         StronglySorted Z.lt (snd e) /\ (forall x, In x (snd e) -> In x (nodes g)) /\
         In a (snd e) /\ is_candidate g a = true /\
         WitnessedB (m_wildcard mp) (m_ignore_case mp) G max_id (n_cfg nd) a (Some (snd e)) /\
         forall d, In d (more_specific full tr i) ->
                   ~ node_WitnessedB (m_wildcard mp) (m_ignore_case mp) tr G max_id d a)
    /\ (forall a rt, In a (fg_candidates g) -> In rt (t_roots tr) ->
                     node_WitnessedB (m_wildcard mp) (m_ignore_case mp) tr G max_id rt a ->
                     exists e, In e r /\ In a (snd e)).
Proof. exact C05_tree_okb_sound. Qed.

(* the constant tree used by the case files for the default configuration is the model's tree *)
Theorem C05_default_tree_cached :
  build_config_tree_from_list default_mapper default_configs = Good default_tree_val.
Proof. exact default_tree_ok. Qed.

(* non-vacuity: methyl acetate CC(=O)OC with node ids 5..9 (not starting at 0, the D16 situation) *)
Open Scope string_scope.
Open Scope Z_scope.
Definition ex_methyl_acetate : graph :=
  [(5, (na_sym "C", [(6, Scalar 2)]));
   (6, (na_sym "C", [(5, Scalar 2); (7, Scalar 4); (8, Scalar 2)]));
   (7, (na_sym "O", [(6, Scalar 4)]));
   (8, (na_sym "O", [(6, Scalar 2); (9, Scalar 2)]));
   (9, (na_sym "C", [(8, Scalar 2)]))].

Example C05_example :
  query default_mapper default_configs true ex_methyl_acetate = Good [("ester", [6; 7; 8])]
  /\ C05_okb default_mapper default_configs true ex_methyl_acetate (Good [("ester", [6; 7; 8])]) = true
  /\ wfb ex_methyl_acetate = true /\ has_symsb ex_methyl_acetate = true.
Proof. repeat split; vm_compute; reflexivity. Qed.

Print Assumptions C05_justified.
Print Assumptions C05_justified_tree.
Print Assumptions C05_descendant.
Print Assumptions C05_descendant_refuted.
Print Assumptions C05_witness_in_finding_class.
Print Assumptions C05_default_outside_finding_class.
Print Assumptions C05_is_functional_group_true.
Print Assumptions C05_is_functional_group_false.
Print Assumptions C05_premises.
Print Assumptions C05_justified_closed.
Print Assumptions C05_justified_tree_closed.
Print Assumptions C05_is_functional_group_true_closed.
Print Assumptions C05_is_functional_group_false_closed.
Print Assumptions C05_reference_exact.
Print Assumptions C05_checker_sound.
Print Assumptions C05_default_tree_cached.
